package padding

// C18 harnesses: padding schemes against reference definitions written from the standards
// (RFC 5652 6.3 PKCS#7; ANSI X9.23; ISO/IEC 9797-1 padding methods 2 and 3).

func c18New(scheme, bs int) Padding {
	switch scheme {
	case 0:
		return NewPKCS7Padding(uint(bs))
	case 1:
		return NewANSIX923Padding(uint(bs))
	case 2:
		return NewISO9797M2Padding(uint(bs))
	}
	return NewISO9797M3Padding(uint(bs))
}

// c18SpecPad is the reference padded string of m for the scheme.
func c18SpecPad(scheme, bs int, m []byte) []byte {
	n := len(m)
	k := bs - n%bs // 1..bs
	out := append([]byte(nil), m...)
	switch scheme {
	case 0:
		for i := 0; i < k; i++ {
			out = append(out, byte(k))
		}
	case 1:
		for i := 0; i < k-1; i++ {
			out = append(out, 0)
		}
		out = append(out, byte(k))
	case 2:
		out = append(out, 0x80)
		for i := 0; i < k-1; i++ {
			out = append(out, 0)
		}
	default:
		// method 3: length block L (bs bytes, big-endian bit length, right aligned), then the data
		// right-padded with zero bytes to a positive multiple of the block size.
		z := (bs - n%bs) % bs
		if n == 0 {
			z = bs
		}
		l := make([]byte, bs)
		bits := uint64(n) * 8
		for i := bs - 1; i >= 0 && bits > 0; i-- {
			l[i] = byte(bits)
			bits >>= 8
		}
		out = append(l, m...)
		for i := 0; i < z; i++ {
			out = append(out, 0)
		}
	}
	return out
}

// c18LenFits: the bit length of an n-byte message is representable in the method-3 length block.
func c18LenFits(scheme, bs, n int) bool {
	if scheme != 3 || bs >= 8 {
		return true
	}
	return uint64(n)*8 < uint64(1)<<(8*uint(bs))
}

// Pad has the documented form; Unpad inverts it; the caller's prefix is preserved; spare capacity
// (append semantics) holds arbitrary bytes.
func verifH_c18_roundtrip() {
	scheme, bs, n, spare := verifParam("scheme"), verifParam("bs"), verifParam("n"), verifParam("spare")
	if !c18LenFits(scheme, bs, n) {
		verifReach("end")
		return
	}
	p := c18New(scheme, bs)
	verifAssert(p.BlockSize() == bs, "BlockSize")
	buf := verifBytesCap("msg", n, n+spare)
	orig := append([]byte(nil), buf...)
	out := p.Pad(buf)
	exp := c18SpecPad(scheme, bs, orig)
	verifAssert(len(out)%bs == 0 && len(out) > n, "whole number of blocks, longer than the message")
	verifAssert(len(out) == len(exp), "padded length as documented")
	verifAssert(verifEqBytes(out, exp), "padded string has the documented form")
	back, err := p.Unpad(out)
	verifAssert(err == nil, "Unpad accepts what Pad produced")
	verifAssert(len(back) == n, "Unpad(Pad(m)) has the length of m")
	verifAssert(verifEqBytes(back, orig), "Unpad(Pad(m)) == m")
	verifReach("end")
}

// Unpad of an arbitrary string of length n: never panics; a string that is not a positive multiple
// of the block size is refused; whatever is accepted is exactly the reference padding of the result.
func verifH_c18_accept() {
	scheme, bs, n := verifParam("scheme"), verifParam("bs"), verifParam("n")
	p := c18New(scheme, bs)
	s := verifBytes("s", n)
	keep := append([]byte(nil), s...)
	m, err := p.Unpad(s)
	verifAssert(verifEqBytes(s, keep), "Unpad does not modify its input")
	if n == 0 || n%bs != 0 {
		verifAssert(err != nil, "non-aligned input is refused")
		verifReach("end")
		return
	}
	if err == nil {
		if c18LenFits(scheme, bs, len(m)) {
			exp := c18SpecPad(scheme, bs, m)
			verifAssert(len(exp) == n, "accepted string has the length of the padding of the result")
			verifAssert(verifEqBytes(exp, keep), "accepted string is the padding of the returned message")
		} else {
			verifAssert(false, "accepted a length the length block cannot represent")
		}
	}
	verifReach("end")
}

// Constructors accept exactly 1..255.
func verifH_c18_ctor() {
	scheme := verifParam("scheme")
	bs := verifInt("bs", 0, 1000)
	var p Padding
	panicked := verifPanics(func() { p = c18New(scheme, bs) })
	verifAssert(panicked == (bs == 0 || bs > 255), "constructor accepts exactly block sizes 1..255")
	if !panicked {
		verifAssert(p.BlockSize() == bs, "BlockSize")
	}
	verifReach("end")
}
