package sm2

import (
	"crypto/elliptic"
	"crypto/rand"

	_sm2ec "github.com/emmansun/gmsm/internal/sm2ec"
	"github.com/emmansun/gmsm/sm3"
)

// C13 / C07 (legacy path): sm2.Decrypt with a key on a curve other than SM2 P-256 goes through the math/big
// implementation (decryptLegacy, bytesToPoint, rawDecrypt, calculateC3).  The curve is the abstract
// elliptic.Curve of c08_purego.go; natively NIST P-256.

// decryptLegacy on every ciphertext of n bytes (longer than 1 + 32 + 32, as the caller guarantees) that
// starts with the given point-format byte: a value or an error, never a panic.
func verifH_c13_sm2_legacy_decrypt() {
	n, fmtb, order := verifParam("n"), verifParam("fmt"), verifParam("order")
	var curve elliptic.Curve
	if verifSymbolic() {
		curve = c08NewCurve()
		c08MLead = 0
	} else {
		curve = elliptic.P256()
	}
	d := verifBytes("d", 32)
	verifAssume(d[0] != 0)
	priv := &PrivateKey{}
	priv.Curve, priv.D = curve, c06Big(d)
	ct := verifBytes("ct", n)
	ct[0] = byte(fmtb)
	verifAssume(verifAll(ct[1] != 0, ct[33] != 0)) // full-length coordinates: one math/big length class
	if !verifSymbolic() {
		// native instance finder: C1 is a real point of the curve (symbolically membership is opaque)
		k := verifBytes("pointscalar", 32)
		k[31] |= 1
		x, y := curve.ScalarBaseMult(k)
		enc := elliptic.Marshal(curve, x, y)
		copy(ct[1:], enc[1:])
	}
	var dopts *DecrypterOpts
	if order == 1 {
		dopts = NewPlainDecrypterOpts(C1C2C3)
	}
	pt, err := decryptLegacy(priv, ct, dopts)
	if err == nil {
		verifAssert(len(pt) > 0 && n > 97, "a plaintext only for a ciphertext long enough to hold C1, C3 and a non-empty C2")
		verifReach("plaintext")
	}
	verifReach("end")
}

// legacy encryption then decryption (math/big path, curve other than SM2 P-256): the message comes back for
// every message of n bytes, every key and nonce (full-length scalars and coordinates), both plain layouts.
func verifH_c07_legacy_roundtrip() {
	n, order := verifParam("n"), verifParam("order")
	msg := verifBytes("msg", n)
	keep := append([]byte(nil), msg...)
	opts := NewPlainEncrypterOpts(MarshalUncompressed, C1C3C2)
	var dopts *DecrypterOpts
	if order == 1 {
		opts = NewPlainEncrypterOpts(MarshalUncompressed, C1C2C3)
		dopts = NewPlainDecrypterOpts(C1C2C3)
	}
	if !verifSymbolic() {
		// native instance finder: NIST P-256; encrypt until the rare event C2 = 0...0 (t = M) shows up
		curve := elliptic.P256()
		d := verifBytes("d", 32)
		d[0] &= 0x7f
		d[31] |= 1
		priv := &PrivateKey{}
		priv.Curve, priv.D = curve, c06Big(d)
		priv.X, priv.Y = curve.ScalarBaseMult(d)
		for i := 0; i < 1500; i++ {
			ct, err := encryptLegacy(rand.Reader, &priv.PublicKey, msg, opts)
			verifAssert(err == nil, "legacy encryption succeeds")
			zero := true
			c2 := ct[len(ct)-n:]
			if order == 1 {
				c2 = ct[65 : 65+n]
			}
			for _, b := range c2 {
				zero = zero && b == 0
			}
			// the standard's C3 from exact integers: (x2, y2) = [d]C1, fixed-width coordinates
			c1x, c1y := elliptic.Unmarshal(curve, ct[:65])
			x2, y2 := curve.ScalarMult(c1x, c1y, d)
			md := sm3.New()
			md.Write(c08Fix(x2))
			md.Write(keep)
			md.Write(c08Fix(y2))
			c3 := ct[65:97]
			if order == 1 {
				c3 = ct[65+n:]
			}
			verifAssert(verifEqBytes(c3, md.Sum(nil)), "C3 = SM3(x2 || M || y2), fixed-width coordinates")
			short := c08Fix(x2)[0] == 0 || c08Fix(y2)[0] == 0
			if i > 0 && !zero && !short {
				continue
			}
			pt, err := decryptLegacy(priv, ct, dopts)
			verifAssert(err == nil && verifEqBytes(pt, keep), "decrypting what the library encrypted returns the message")
			if (zero || n != 1) && short {
				break
			}
		}
		verifReach("end")
		return
	}
	curve := c08NewCurve()
	c08MLead = verifParam("short") // 1: the shared point's abscissa has a leading zero byte
	d, k := verifBytes("d", 32), verifBytes("k", 32)
	verifAssume(verifAll(c12InRange(d), d[0] != 0, c12InRange(k), k[0] != 0))
	c08DH = [][2][]byte{{d, k}}
	qx, qy := verifUF("G.x", 32, d), verifUF("G.y", 32, d)
	verifAssume(verifAll(qx[0] != 0, qy[0] != 0, c12Less(qx, c12P), c12Less(qy, c12P), _sm2ec.VerifOnCurve(qx, qy)))
	kx, ky := verifUF("G.x", 32, k), verifUF("G.y", 32, k)
	verifAssume(verifAll(kx[0] != 0, ky[0] != 0, c12Less(kx, c12P), c12Less(ky, c12P), _sm2ec.VerifOnCurve(kx, ky)))
	priv := &PrivateKey{}
	priv.Curve, priv.D, priv.X, priv.Y = curve, c06Big(d), c06Big(qx), c06Big(qy)
	rd := &c12Reader{failAt: 2, mode: 1, preset: [][]byte{k}}
	ct, err := encryptLegacy(rd, &priv.PublicKey, msg, opts)
	if err != nil {
		verifAssert(rd.calls >= 2, "legacy encryption fails only when the random source fails (t = 0 retry)")
		verifReach("end")
		return
	}
	// the ciphertext is the standard's: C1 = [k]G, C3 = SM3(x2 || M || y2) and C2 = M xor KDF(x2 || y2) with
	// FIXED-WIDTH coordinates of (x2, y2) = [k]P
	x2b, y2b := curve.ScalarMult(priv.X, priv.Y, k)
	x2, y2 := c08Fix(x2b), c08Fix(y2b)
	verifAssert(len(ct) == 97+n && ct[0] == 4 && verifEqBytes(ct[1:33], kx) && verifEqBytes(ct[33:65], ky), "C1 = 04 || x1 || y1")
	if len(ct) == 97+n {
		c3, c2 := ct[65:97], ct[97:]
		if order == 1 {
			c2, c3 = ct[65:65+n], ct[65+n:]
		}
		md := sm3.New()
		md.Write(x2)
		md.Write(keep)
		md.Write(y2)
		verifAssert(verifEqBytes(c3, md.Sum(nil)), "C3 = SM3(x2 || M || y2), fixed-width coordinates")
		t := sm3.Kdf(append(append([]byte(nil), x2...), y2...), n)
		for i := range t {
			t[i] ^= keep[i]
		}
		verifAssert(verifEqBytes(c2, t), "C2 = M xor KDF(x2 || y2, |M|), fixed-width coordinates")
	}
	pt, err := decryptLegacy(priv, ct, dopts)
	verifAssert(err == nil, "decrypting what the library encrypted succeeds")
	if err == nil {
		verifAssert(len(pt) == n && verifEqBytes(pt, keep), "and returns exactly the message")
	}
	verifReach("roundtrip")
	verifReach("end")
}
