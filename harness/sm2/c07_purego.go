package sm2

import (
	"math/big"


	_sm2ec "github.com/emmansun/gmsm/internal/sm2ec"
)

// C07 (narrow): SM2 encryption round trip and parser robustness in the abstract group.

// DL-model fact of the prime-order group: [k]([d]G) = [d]([k]G), registered with the abstract group
// (harness/internal/sm2ec) so that both sides are the same uninterpreted value.
func c07RegisterDH(d, k []byte) {
	_sm2ec.VerifDH = append(_sm2ec.VerifDH, _sm2ec.VerifDHFact{
		PX: verifUF("G.x", 32, d), PY: verifUF("G.y", 32, d), S: k,
		RX: verifUF("G.x", 32, k), RY: verifUF("G.y", 32, k), T: d})
}

// encrypt then decrypt: the plaintext comes back for every message, for up to `retries` KDF-all-zero
// retries, in every plain layout and the ASN.1 layout (uncompressed C1).
func verifH_c07_roundtrip() {
	n := verifParam("n")
	layout := verifParam("layout") // 0: C1C3C2, 1: C1C2C3, 2: ASN.1
	c := c12Curve()
	d := verifBytes("d", 32)
	verifAssume(verifAll(c12InRange(d), !verifEqBytes(d, c12NMinus1)))
	verifAssume(d[0] != 0) // full-length scalar and coordinates (math/big strips leading zero bytes: one path each)
	var qx, qy []byte
	if verifSymbolic() {
		qx, qy = verifUF("G.x", 32, d), verifUF("G.y", 32, d)
		verifAssume(qx[0] != 0)
		verifAssume(qy[0] != 0)
		verifAssume(_sm2ec.VerifOnCurve(qx, qy)) // multiples of G lie on the curve,
		verifAssume(verifAll(c12Less(qx, c12P), c12Less(qy, c12P))) // with coordinates below p
	} else {
		p, _ := c.newPoint().ScalarBaseMult(d)
		b := p.Bytes()
		qx, qy = b[1:33], b[33:]
	}
	priv := c12Priv(d, qx, qy)
	msg := verifBytes("msg", n)
	keep := append([]byte(nil), msg...)
	rd := &c12Reader{failAt: 3, mode: 1}
	if verifSymbolic() {
		_sm2ec.VerifDH = nil
		rd.preset = [][]byte{verifBytes("k1", 32), verifBytes("k2", 32)}
		for _, k := range rd.preset {
			c07RegisterDH(d, k)
			verifAssume(_sm2ec.VerifOnCurve(verifUF("G.x", 32, k), verifUF("G.y", 32, k)))
			verifAssume(verifAll(c12Less(verifUF("G.x", 32, k), c12P), c12Less(verifUF("G.y", 32, k), c12P)))
			if layout == 2 {
				kx, ky := verifUF("G.x", 32, k), verifUF("G.y", 32, k)
				verifAssume(verifAny(kx[0] != 0, kx[1] != 0, kx[2] != 0))
				verifAssume(verifAny(ky[0] != 0, ky[1] != 0, ky[2] != 0))
			}
		}
	}
	opts := NewPlainEncrypterOpts(MarshalUncompressed, C1C3C2)
	var dopts *DecrypterOpts
	switch layout {
	case 1:
		opts = NewPlainEncrypterOpts(MarshalUncompressed, C1C2C3)
		dopts = NewPlainDecrypterOpts(C1C2C3)
	case 2:
		opts = ASN1EncrypterOpts
		dopts = ASN1DecrypterOpts
	}
	ct, err := encryptSM2EC(c, &priv.PublicKey, rd, msg, opts)
	verifDumpErr("encrypt", err)
	if err != nil {
		// only possible when the source ran dry (two blocks rejected or t all-zero twice)
		verifAssert(rd.calls >= 3, "encryption fails only when the random source fails")
		verifReach("end")
		return
	}
	verifAssert(verifEqBytes(msg, keep), "message not modified")
	pt, err := decryptSM2EC(c, priv, ct, dopts)
	verifDumpErr("decrypt", err)
	verifAssert(err == nil, "decrypting what the library encrypted succeeds")
	if err == nil {
		verifAssert(len(pt) == n && verifEqBytes(pt, keep), "and returns exactly the message")
	}
	if len(rd.given) > 1 {
		verifReach("retried")
	}
	verifReach("end")
}

// decryptSM2EC on arbitrary bytes: returns a value or an error, never panics; a returned plaintext
// implies the recomputed C3 matched.
func verifH_c07_parse() {
	n, fmtb, order := verifParam("n"), verifParam("fmt"), verifParam("order")
	c := c12Curve()
	d := verifBytes("d", 32)
	verifAssume(d[0] != 0)
	priv := c12Priv(d, d, d)
	ct := verifBytes("ct", n)
	if n > 0 && fmtb >= 0 {
		ct[0] = byte(fmtb)
	}
	if !verifSymbolic() && (fmtb == 2 || fmtb == 3 || fmtb == 4) {
		// native instance finder: start the candidate with a real curve point in the requested encoding
		// (symbolically the curve check is an opaque predicate that may hold for any bytes)
		k := verifBytes("pointscalar", 32)
		k[0] &= 0x7f
		k[31] |= 1
		if pt, err := c.newPoint().ScalarBaseMult(k); err == nil {
			enc := pt.Bytes()
			if fmtb != 4 {
				enc = pt.BytesCompressed()
			}
			if fmtb == 4 || enc[0] == byte(fmtb) {
				copy(ct, enc)
			}
		}
	}
	var dopts *DecrypterOpts
	if order == 1 {
		dopts = NewPlainDecrypterOpts(C1C2C3)
	}
	pt, err := decryptSM2EC(c, priv, ct, dopts)
	if err == nil {
		verifAssert(len(pt) > 0 || n >= 97, "a plaintext only for a long enough ciphertext")
	}
	verifReach("end")
}

var _ = big.NewInt
