package sm2

// C14 (narrow): "private scalars outside the valid range are refused" for the SM2 key constructor.

// p256() builds the curve context from math/big parameter tables; the harness context is the same curve
// without them (constants checked against the real ones in native runs, see c12Curve).
func verifModel_p256() *sm2Curve { return c06Curve() }

// NewPrivateKey on every byte string of length n: accepted exactly if n = 32 and the value lies in
// [1, n-2]; D is that very value and the public key is the base-point multiple of that very scalar.
func verifH_c14_sm2_range() {
	n := verifParam("n")
	key := verifBytes("key", n)
	keep := append([]byte(nil), key...)
	if verifSymbolic() {
		_sm2ecResetGhost()
	}
	priv, err := NewPrivateKey(key)
	if n != 32 {
		verifAssert(err != nil && priv == nil, "a scalar of the wrong length is refused")
		verifReach("end")
		return
	}
	want := verifAll(c12InRange(keep), !verifEqBytes(keep, c12NMinus1))
	verifAssert((err == nil) == want, "a private scalar is accepted exactly if it lies in [1, n-2]")
	if err == nil {
		verifAssert(priv != nil && priv.D != nil, "a key comes back")
		d := priv.D.FillBytes(make([]byte, 32))
		verifAssert(verifEqBytes(d, keep), "D is exactly the given scalar (no reduction)")
		if verifSymbolic() {
			verifAssert(_sm2ecLastBaseScalarIs(keep), "the public key is the base-point multiple of that very scalar")
		}
		verifReach("accepted")
	}
	verifReach("end")
}
