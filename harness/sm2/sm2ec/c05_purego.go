package sm2ec

import (
	"crypto/elliptic"
	"math/big"

	"github.com/emmansun/gmsm/internal/sm2ec"
)

// C05 (narrow): the math/big wrapper sm2/sm2ec/sm2ec.go over the abstract group (harness/internal/sm2ec):
// which point and which scalar it hands to the group operations, for every coordinate and scalar value of
// the stated length classes.  math/big is the real code ((*Int).Mod with symbolic operands uninterpreted).

var c05N = []byte{0xFF, 0xFF, 0xFF, 0xFE, 0xFF, 0xFF, 0xFF, 0xFF, 0xFF, 0xFF, 0xFF, 0xFF, 0xFF, 0xFF, 0xFF, 0xFF, 0x72, 0x03, 0xDF, 0x6B, 0x21, 0xC6, 0x05, 0x2B, 0x53, 0xBB, 0xF4, 0x09, 0x39, 0xD5, 0x41, 0x23}
var c05P = []byte{0xFF, 0xFF, 0xFF, 0xFE, 0xFF, 0xFF, 0xFF, 0xFF, 0xFF, 0xFF, 0xFF, 0xFF, 0xFF, 0xFF, 0xFF, 0xFF, 0xFF, 0xFF, 0xFF, 0xFF, 0x00, 0x00, 0x00, 0x00, 0xFF, 0xFF, 0xFF, 0xFF, 0xFF, 0xFF, 0xFF, 0xFF}

func c05Big(b []byte) *big.Int { return new(big.Int).SetBytes(b) }

func c05Curve() *sm2Curve {
	if !verifSymbolic() {
		initonce.Do(initAll)
		return sm2p256
	}
	return &sm2Curve{newPoint: sm2ec.NewSM2P256Point, params: &elliptic.CurveParams{Name: "sm2p256v1", BitSize: 256, P: c05Big(c05P), N: c05Big(c05N)}}
}

func c05Less(a, b []byte) bool {
	lt, eq := false, true
	for i := range a {
		lt = verifAny(lt, verifAll(eq, a[i] < b[i]))
		eq = verifAll(eq, a[i] == b[i])
	}
	return lt
}

// a 32-byte value with exactly lz leading zero bytes (lz = 32: zero)
func c05Val(tag string, lz int) []byte {
	v := verifBytes(tag, 32)
	for i := 0; i < 32; i++ {
		if i < lz {
			v[i] = 0
		} else if i == lz {
			verifAssume(v[i] != 0)
		}
	}
	return v
}

func c05Fix(v *big.Int) []byte { return v.FillBytes(make([]byte, 32)) }

func c05Valid(x, y []byte) bool {
	return verifAll(c05Less(x, c05P), c05Less(y, c05P), sm2ec.VerifOnCurve(x, y))
}

// IsOnCurve and Add for a first operand in the length class (xz, yz): (0,0) is the point at infinity and
// NOT on the curve; every other pair is handed to the group verbatim (a zero coordinate is a coordinate).
func verifH_c05_wrap_point() {
	xz, yz := verifParam("xz"), verifParam("yz")
	c := c05Curve()
	x, y := c05Val("x", xz), c05Val("y", yz)
	if !verifSymbolic() {
		// natively: the two curve points with x = 0 exist (b is a square); take y from the square root
		if xz == 32 && yz < 32 {
			r := new(big.Int).ModSqrt(c.params.B, c.params.P)
			if r == nil {
				verifReach("end")
				return
			}
			y = c05Fix(r)
			X, Y := new(big.Int), r
			verifAssert(c.IsOnCurve(X, Y), "(0, sqrt(b)) is on the curve")
			gx, gy := c.params.Gx, c.params.Gy
			ax, ay := c.Add(X, Y, gx, gy)
			verifAssert(!(ax.Cmp(gx) == 0 && ay.Cmp(gy) == 0), "(0, y) + G is not G")
			dx, dy := c.ScalarMult(X, Y, []byte{1})
			verifAssert(dx.Sign() == 0 && dy.Cmp(Y) == 0, "[1](0, y) = (0, y)")
		}
		// a pair with exactly one zero coordinate is a pair of coordinates, not the point at infinity:
		// it is on the curve only if it satisfies the curve equation (never for y = 0: the order is prime)
		if (xz == 32) != (yz == 32) {
			X, Y := c05Big(x), c05Big(y)
			on := false
			if xz == 32 {
				r := new(big.Int).ModSqrt(c.params.B, c.params.P)
				on = r != nil && (Y.Cmp(r) == 0 || Y.Cmp(new(big.Int).Sub(c.params.P, r)) == 0)
			}
			verifAssert(c.IsOnCurve(X, Y) == on, "IsOnCurve: (0,0) is refused; otherwise exactly canonical coordinates on the curve")
		}
		verifReach("end")
		return
	}
	X, Y := c05Big(x), c05Big(y)
	got := c.IsOnCurve(X, Y)
	want := false
	if !(xz == 32 && yz == 32) {
		want = c05Valid(x, y)
	}
	verifAssert(got == want, "IsOnCurve: (0,0) is refused; otherwise exactly canonical coordinates on the curve")
	if got {
		x2, y2 := verifBytes("x2", 32), verifBytes("y2", 32)
		verifAssume(verifAll(x2[0] != 0, y2[0] != 0, c05Valid(x2, y2)))
		ax, ay := verifUF("A.x", 32, x, y, x2, y2), verifUF("A.y", 32, x, y, x2, y2)
		inf := verifUF("A.inf", 1, x, y, x2, y2)[0]&1 == 1
		verifAssume(verifAll(ax[0] != 0, ay[0] != 0))
		sx, sy := c.Add(X, Y, c05Big(x2), c05Big(y2))
		if inf {
			verifAssert(sx.Sign() == 0 && sy.Sign() == 0, "an infinite sum is reported as (0, 0)")
		} else {
			verifAssert(verifEqBytes(c05Fix(sx), ax) && verifEqBytes(c05Fix(sy), ay), "Add hands exactly (x, y) and (x2, y2) to the group addition")
		}
		k := verifBytes("k", 32)
		mx, my := verifUF("M.x", 32, x, y, k), verifUF("M.y", 32, x, y, k)
		verifAssume(verifAll(mx[0] != 0, my[0] != 0))
		px, py := c.ScalarMult(X, Y, k)
		verifAssert(verifEqBytes(c05Fix(px), mx) && verifEqBytes(c05Fix(py), my), "ScalarMult hands exactly (x, y) and the 32-byte scalar to the group")
		verifReach("oncurve")
	}
	verifReach("end")
}

// scalars of any length: reduced modulo the GROUP ORDER (never the field prime) when longer than 32 bytes,
// left-padded when shorter; Inverse reduces |k| modulo n before inverting.
func verifH_c05_wrap_scalar() {
	n := verifParam("n")
	c := c05Curve()
	k := verifBytes("k", n)
	if n > 0 {
		verifAssume(k[0] != 0)
	}
	if !verifSymbolic() {
		c05ScalarNative(c, k)
		verifReach("end")
		return
	}
	want := append(make([]byte, 0, 32), k...)
	if n < 32 {
		want = append(make([]byte, 32-n), k...)
	} else if n > 32 {
		want = c05Fix(new(big.Int).Mod(c05Big(k), c05Big(c05N)))
	}
	gx, gy := verifUF("G.x", 32, want), verifUF("G.y", 32, want)
	verifAssume(verifAll(gx[0] != 0, gy[0] != 0))
	bx, by := c.ScalarBaseMult(k)
	verifAssert(verifEqBytes(c05Fix(bx), gx) && verifEqBytes(c05Fix(by), gy), "ScalarBaseMult: the scalar is k (padded) or k mod n")

	// Inverse
	kk := c05Big(k)
	red := kk
	if kk.Cmp(c05Big(c05N)) >= 0 {
		red = new(big.Int).Mod(kk, c05Big(c05N))
	}
	inv := verifUF("fn.inv", 32, c05Fix(red))
	verifAssume(inv[0] != 0)
	got := c.Inverse(kk)
	verifAssert(verifEqBytes(c05Fix(got), inv), "Inverse inverts k mod n (reduction by the group order)")
	verifReach("end")
}

func c05ScalarNative(c *sm2Curve, k []byte) {
	N := c.params.N
	kk := c05Big(k)
	red := new(big.Int).Mod(kk, N)
	bx, by := c.ScalarBaseMult(k)
	wx, wy := c.ScalarBaseMult(c05Fix(red))
	verifAssert(bx.Cmp(wx) == 0 && by.Cmp(wy) == 0, "ScalarBaseMult: the scalar is k mod n")
	if red.Sign() != 0 {
		inv := c.Inverse(kk)
		want := new(big.Int).ModInverse(red, N)
		verifAssert(inv.Cmp(want) == 0, "Inverse inverts k mod n (reduction by the group order)")
	}
	// structured values at and above the field prime
	for _, v := range []*big.Int{c.params.P, new(big.Int).Add(c.params.P, big.NewInt(5)), new(big.Int).Lsh(big.NewInt(1), 256), new(big.Int).Mul(N, big.NewInt(3))} {
		r := new(big.Int).Mod(v, N)
		got := c.Inverse(v)
		if r.Sign() == 0 {
			continue
		}
		verifAssert(got.Cmp(new(big.Int).ModInverse(r, N)) == 0, "Inverse of a value at or above p inverts it modulo n")
	}
}
