package sm2

import (
	"crypto/ecdsa"
	"crypto/elliptic"
	"math/big"

	_sm2ec "github.com/emmansun/gmsm/internal/sm2ec"
	"github.com/emmansun/gmsm/sm3"
)

// C08 / C12 (sm2 package, math/big code): sm2.KeyExchange and randFieldElement run on an abstract
// elliptic.Curve -- the group operations the code reaches through the Curve interface are uninterpreted
// functions of the operands' 32-byte encodings (the same symbols as harness/internal/sm2ec), the curve
// parameters are the real constants.  math/big itself is the real code, except (*Int).Mod with symbolic
// operands (an uninterpreted function of the operands, see DESIGN 9.7).

var c08B = []byte{0x28, 0xE9, 0xFA, 0x9E, 0x9D, 0x9F, 0x5E, 0x34, 0x4D, 0x5A, 0x9E, 0x4B, 0xCF, 0x65, 0x09, 0xA7, 0xF3, 0x97, 0x89, 0xF5, 0x15, 0xAB, 0x8F, 0x92, 0xDD, 0xBC, 0xBD, 0x41, 0x4D, 0x94, 0x0E, 0x93}
var c08Gx = []byte{0x32, 0xC4, 0xAE, 0x2C, 0x1F, 0x19, 0x81, 0x19, 0x5F, 0x99, 0x04, 0x46, 0x6A, 0x39, 0xC9, 0x94, 0x8F, 0xE3, 0x0B, 0xBF, 0xF2, 0x66, 0x0B, 0xE1, 0x71, 0x5A, 0x45, 0x89, 0x33, 0x4C, 0x74, 0xC7}
var c08Gy = []byte{0xBC, 0x37, 0x36, 0xA2, 0xF4, 0xF6, 0x77, 0x9C, 0x59, 0xBD, 0xCE, 0xE3, 0x6B, 0x69, 0x21, 0x53, 0xD0, 0xA9, 0x87, 0x7C, 0xC6, 0x2A, 0x47, 0x40, 0x02, 0xDF, 0x32, 0xE5, 0x21, 0x39, 0xF0, 0xA0}

type c08Curve struct{ p *elliptic.CurveParams }

func c08NewCurve() elliptic.Curve {
	if !verifSymbolic() {
		return P256()
	}
	return &c08Curve{p: &elliptic.CurveParams{P: c06Big(c12P), N: c06Big(c12N), B: c06Big(c08B), Gx: c06Big(c08Gx), Gy: c06Big(c08Gy), BitSize: 256, Name: "sm2p256v1"}}
}

func c08Fix(v *big.Int) []byte { return v.FillBytes(make([]byte, 32)) }

// a point from two 32-byte encodings; (0, 0) stands for the point at infinity
func c08Pt(x, y []byte, inf bool) (*big.Int, *big.Int) {
	if inf {
		return new(big.Int), new(big.Int)
	}
	// one length class per case: full-length coordinates (non-zero top byte) ...
	verifAssume(verifAll(x[0] != 0, y[0] != 0))
	return c06Big(x), c06Big(y)
}

var c08MLead int

func c08TopWord(x []byte) bool {
	return verifAny(x[0] != 0, x[1] != 0, x[2] != 0, x[3] != 0, x[4] != 0, x[5] != 0, x[6] != 0, x[7] != 0)
}

func (c *c08Curve) Params() *elliptic.CurveParams { return c.p }

func (c *c08Curve) IsOnCurve(x, y *big.Int) bool {
	if x.Sign() < 0 || y.Sign() < 0 || x.BitLen() > 256 || y.BitLen() > 256 {
		return false
	}
	xb, yb := c08Fix(x), c08Fix(y)
	return verifAll(c12Less(xb, c12P), c12Less(yb, c12P), _sm2ec.VerifOnCurve(xb, yb))
}

func (c *c08Curve) Add(x1, y1, x2, y2 *big.Int) (*big.Int, *big.Int) {
	a, b, d, e := c08Fix(x1), c08Fix(y1), c08Fix(x2), c08Fix(y2)
	return c08Pt(verifUF("A.x", 32, a, b, d, e), verifUF("A.y", 32, a, b, d, e), verifUF("A.inf", 1, a, b, d, e)[0]&1 == 1)
}

func (c *c08Curve) Double(x1, y1 *big.Int) (*big.Int, *big.Int) {
	a, b := c08Fix(x1), c08Fix(y1)
	return c08Pt(verifUF("D.x", 32, a, b), verifUF("D.y", 32, a, b), false)
}

func c08Scalar(k []byte) []byte {
	if len(k) > 32 {
		panic("c08Curve: scalar longer than 32 bytes")
	}
	return append(make([]byte, 32-len(k)), k...)
}

// Diffie-Hellman facts of the prime-order group registered by a harness: [d]([k]G) = [k]([d]G); the model
// returns the same uninterpreted value for both sides
var c08DH [][2][]byte // {d, k}

func (c *c08Curve) ScalarMult(x1, y1 *big.Int, k []byte) (*big.Int, *big.Int) {
	a, b, s := c08Fix(x1), c08Fix(y1), c08Scalar(k)
	for _, f := range c08DH {
		d, kk := f[0], f[1]
		if verifSameBytes(a, verifUF("G.x", 32, kk)) && verifSameBytes(b, verifUF("G.y", 32, kk)) && verifSameBytes(s, d) {
			a, b, s = verifUF("G.x", 32, d), verifUF("G.y", 32, d), kk
			break
		}
	}
	inf := x1.Sign() == 0 && y1.Sign() == 0
	mx, my := verifUF("M.x", 32, a, b, s), verifUF("M.y", 32, a, b, s)
	if c08MLead == 1 && !inf {
		// ... or, in the "short" cases, variable-point multiples whose abscissa has exactly one leading
		// zero byte (where minimal and fixed-width encodings differ)
		verifAssume(verifAll(mx[0] == 0, mx[1] != 0, my[0] != 0))
		return c06Big(mx), c06Big(my)
	}
	return c08Pt(mx, my, inf)
}

func (c *c08Curve) ScalarBaseMult(k []byte) (*big.Int, *big.Int) {
	s := c08Scalar(k)
	return c08Pt(verifUF("G.x", 32, s), verifUF("G.y", 32, s), false)
}

// randFieldElement: the scalar is exactly the first 32-byte block in [1, n-1]; a failing source is an error.
func verifH_c12_randfield() {
	failAt, mode := verifParam("failat"), verifParam("mode")
	c := c08NewCurve()
	rd := &c12Reader{failAt: failAt, mode: mode}
	k, err := randFieldElement(c, rd)
	if err != nil {
		verifAssert(failAt > 0 && rd.calls >= failAt, "an error is reported only when the source failed")
		for _, b := range rd.given {
			verifAssert(!c12InRange(b), "every block consumed before the failure was out of range")
		}
		verifReach("failed")
		verifReach("end")
		return
	}
	verifAssert(failAt == 0 || rd.calls < failAt, "no success after the source failed")
	n := len(rd.given)
	verifAssert(n >= 1 && k != nil, "at least one block consumed")
	last := rd.given[n-1]
	verifAssert(k.Sign() >= 0 && k.BitLen() <= 256 && verifEqBytes(c08Fix(k), last), "the scalar is exactly the last sampled block (no masking, no reduction)")
	verifAssert(c12InRange(last), "the accepted block lies in [1, n-1]")
	for _, b := range rd.given[:n-1] {
		verifAssert(!c12InRange(b), "every earlier block was out of range (blocks are consumed in order, none skipped)")
	}
	verifReach("ok")
	verifReach("end")
}

// sm2.KeyExchange, initiator side, as a history on one object: InitKeyExchange (scalar r), optionally a
// ConfirmResponder that is refused (wrong confirmation value), then a ConfirmResponder that succeeds.  The
// key is KDF(xU || yU || ZA || ZB) with 32-byte fixed-width coordinates of U = [t](PB + [x2~]RB),
// t = (dA + x1~ rA) mod n computed from the ORIGINAL rA, x1~ = avf(x(RA)), x2~ = avf(x(RB)).
func verifH_c08_kx_history() {
	hist := verifParam("hist") // 0: confirm; 1: refused confirm, confirm
	uidsel := verifParam("uid") // 0: nil peer uid; 1: empty non-nil peer uid; 2: explicit default uid
	if !verifSymbolic() {
		c08KxNative(hist, uidsel)
		verifReach("end")
		return
	}
	curve := c08NewCurve()
	c08MLead = verifParam("short")
	d := verifBytes("d", 32)
	verifAssume(verifAll(c12InRange(d), d[0] != 0))
	qx, qy := verifUF("G.x", 32, d), verifUF("G.y", 32, d)
	verifAssume(verifAll(qx[0] != 0, qy[0] != 0))
	priv := &PrivateKey{}
	priv.Curve, priv.D, priv.X, priv.Y = curve, c06Big(d), c06Big(qx), c06Big(qy)
	pb := verifBytes("pb", 64)
	verifAssume(verifAll(pb[0] != 0, pb[32] != 0))
	peer := &ecdsa.PublicKey{Curve: curve, X: c06Big(pb[:32]), Y: c06Big(pb[32:])}
	var peerUID []byte
	switch uidsel {
	case 1:
		peerUID = []byte{}
	case 2:
		peerUID = append([]byte(nil), defaultUID...)
	}
	ke, err := NewKeyExchange(priv, peer, nil, peerUID, 16, true)
	verifAssert(err == nil, "NewKeyExchange")
	za, _ := CalculateZA(&priv.PublicKey, defaultUID)
	zb, _ := CalculateZA(peer, defaultUID)
	verifAssert(verifEqBytes(ke.z, za) && verifEqBytes(ke.peerZ, zb), "an absent or empty user id means the default id, on both sides")

	r := verifBytes("r", 32)
	verifAssume(verifAll(c12InRange(r), r[0] != 0))
	rax, ray := verifUF("G.x", 32, r), verifUF("G.y", 32, r)
	verifAssume(verifAll(rax[0] != 0, ray[0] != 0))
	verifAssume(rax[16]&0x7f != 0) // one math/big length class for avf's AND (the low 127 bits fill two words)
	initKeyExchange(ke, c06Big(r))

	// the standard's t, from copies of the original operands
	avf := func(x []byte) *big.Int {
		t := append(make([]byte, 16), x[16:]...)
		t[16] = t[16]&0x7f | 0x80
		return c06Big(t)
	}
	t := new(big.Int).Mul(avf(rax), c06Big(r))
	t.Add(t, c06Big(d))
	t.Mod(t, c06Big(c12N))
	verifAssume(c08Fix(t)[0] != 0) // one length class for t.Bytes()

	newRB := func(tag string) (*ecdsa.PublicKey, []byte) {
		b := verifBytes(tag, 64)
		verifAssume(b[16]&0x7f != 0)
		verifAssume(verifAll(b[0] != 0, b[32] != 0, c12Less(b[:32], c12P), c12Less(b[32:], c12P), _sm2ec.VerifOnCurve(b[:32], b[32:])))
		return &ecdsa.PublicKey{Curve: curve, X: c06Big(b[:32]), Y: c06Big(b[32:])}, b
	}
	if hist == 1 {
		rb0, _ := newRB("rb0")
		_, _, err := ke.ConfirmResponder(rb0, verifBytes("sbbad", 32))
		if err == nil {
			verifReach("end") // the arbitrary confirmation value happened to be right
			return
		}
	}
	rbk, rb := newRB("rb")
	// the standard's shared point
	x2 := avf(rb[:32])
	mx, my := curve.ScalarMult(c06Big(rb[:32]), c06Big(rb[32:]), x2.Bytes())
	sx, sy := curve.Add(peer.X, peer.Y, mx, my)
	ux, uy := curve.ScalarMult(sx, sy, t.Bytes())
	uInf := ux.Sign() == 0 && uy.Sign() == 0

	key, s2, err := ke.ConfirmResponder(rbk, nil)
	if uInf {
		verifAssert(err != nil, "a shared point at infinity is refused")
		verifReach("end")
		return
	}
	verifAssert(err == nil && len(key) == 16 && len(s2) == 32, "ConfirmResponder without a confirmation value succeeds")
	if err == nil {
		var buf []byte
		buf = append(buf, c08Fix(ux)...)
		buf = append(buf, c08Fix(uy)...)
		buf = append(buf, za...)
		buf = append(buf, zb...)
		verifAssert(verifEqBytes(key, c08Kdf(buf, 16)), "key = KDF(xU || yU || ZA || ZB), fixed-width coordinates, U from the original rA")
		verifAssert(verifEqBytes(c08Fix(ke.r), r), "the ephemeral scalar is not modified by the computation")
		verifReach("done")
	}
	verifReach("end")
}

func c08Kdf(z []byte, n int) []byte { return sm3.Kdf(z, n) }

// native twin: the real protocol; initiator through the history, a fresh responder; keys must agree, also
// with an empty (non-nil) peer id on one side and the default id on the other.
func c08KxNative(hist, uidsel int) {
	mk := func(tag string) *PrivateKey {
		d := verifBytes(tag, 32)
		d[0] &= 0x7f
		d[31] |= 1
		k, err := NewPrivateKey(d)
		if err != nil {
			return nil
		}
		return k
	}
	a, b := mk("da"), mk("db")
	if a == nil || b == nil {
		return
	}
	var peerUID []byte
	switch uidsel {
	case 1:
		peerUID = []byte{}
	case 2:
		peerUID = append([]byte(nil), defaultUID...)
	}
	init, err := NewKeyExchange(a, &b.PublicKey, nil, peerUID, 16, true)
	verifAssert(err == nil, "NewKeyExchange (initiator)")
	rnd := func(tag string) *c12Reader {
		r := verifBytes(tag, 32)
		r[0] &= 0x7f
		r[31] |= 1
		return &c12Reader{preset: [][]byte{r}}
	}
	ra, err := init.InitKeyExchange(rnd("ra"))
	verifAssert(err == nil, "InitKeyExchange")
	respond := func(tag string) (*KeyExchange, *ecdsa.PublicKey, []byte) {
		resp, err := NewKeyExchange(b, &a.PublicKey, nil, nil, 16, true)
		verifAssert(err == nil, "NewKeyExchange (responder)")
		rb, sb, err := resp.RepondKeyExchange(rnd(tag), ra)
		verifAssert(err == nil, "RepondKeyExchange")
		return resp, rb, sb
	}
	if hist == 1 {
		_, rb0, sb0 := respond("rb0")
		bad := append([]byte(nil), sb0...)
		bad[0] ^= 1
		_, _, err := init.ConfirmResponder(rb0, bad)
		verifAssert(err != nil, "a wrong confirmation value is refused")
	}
	resp, rb, sb := respond("rb")
	keyA, sa, err := init.ConfirmResponder(rb, sb)
	verifAssert(err == nil, "the genuine responder is accepted (after a refused attempt as well)")
	if err != nil {
		return
	}
	keyB, err := resp.ConfirmInitiator(sa)
	verifAssert(err == nil && verifEqBytes(keyA, keyB), "both sides derive the same key and accept each other's confirmation")
	// the key is the standard's KDF input with fixed-width coordinates
	var buf []byte
	buf = append(buf, c08Fix(init.v.X)...)
	buf = append(buf, c08Fix(init.v.Y)...)
	buf = append(buf, init.z...)
	buf = append(buf, init.peerZ...)
	verifAssert(verifEqBytes(keyA, c08Kdf(buf, 16)), "key = KDF(xU || yU || ZA || ZB), fixed-width coordinates")
}
