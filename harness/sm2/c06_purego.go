package sm2

// C06 (narrow): the signature parser's accept set.

// reference: strict DER SEQUENCE { INTEGER r, INTEGER s }, both non-negative and minimally encoded, no
// trailing bytes; returns the magnitudes (without the sign-padding zero).  Lengths < 128 within the bound.
func c06DERInt(b []byte, off, end int) (val []byte, next int, ok bool) {
	if off+2 > end || b[off] != 0x02 {
		return nil, 0, false
	}
	l := b[off+1]
	if l >= 0x80 || l == 0 {
		return nil, 0, false
	}
	n := verifConcretize(int(l))
	off += 2
	if off+n > end {
		return nil, 0, false
	}
	v := b[off : off+n]
	if v[0]&0x80 != 0 {
		return nil, 0, false // negative
	}
	if n > 1 && v[0] == 0 && v[1]&0x80 == 0 {
		return nil, 0, false // non-minimal
	}
	if n > 1 && v[0] == 0 {
		v = v[1:]
	}
	return v, off + n, true
}

func c06DERSig(b []byte) (r, s []byte, ok bool) {
	n := len(b)
	if n < 2 || b[0] != 0x30 {
		return nil, nil, false
	}
	l := b[1]
	if l >= 0x80 {
		return nil, nil, false
	}
	if 2+verifConcretize(int(l)) != n {
		return nil, nil, false
	}
	r, off, ok := c06DERInt(b, 2, n)
	if !ok {
		return nil, nil, false
	}
	s, off, ok = c06DERInt(b, off, n)
	if !ok || off != n {
		return nil, nil, false
	}
	return r, s, true
}

func verifH_c06_parse() {
	n := verifParam("n")
	b := verifBytes("sig", n)
	keep := append([]byte(nil), b...)
	r, s, err := parseSignature(b)
	wr, ws, ok := c06DERSig(keep)
	verifAssert((err == nil) == ok, "parseSignature accepts exactly strict DER SEQUENCE{INTEGER,INTEGER} with non-negative minimal integers and no trailing bytes")
	if err == nil && ok {
		verifAssert(len(r) == len(wr) && len(s) == len(ws) && verifEqBytes(r, wr) && verifEqBytes(s, ws), "returned magnitudes")
		verifReach("accepted")
	}
	verifReach("end")
}

// Signing with a private scalar >= n-1: every call returns an error, however often it is repeated,
// and never panics.
func verifH_c06_history() {
	calls := verifParam("calls")
	c := c12Curve()
	// representatives of d >= n-1: n-1, n, n+1, 2^256-1
	d := append([]byte(nil), c12NMinus1...)
	switch verifParam("dsel") {
	case 1:
		d = append([]byte(nil), c12N...)
	case 2:
		d = append([]byte(nil), c12N...)
		d[31]++
	case 3:
		for i := range d {
			d[i] = 0xFF
		}
	}
	priv := c12Priv(d, d, d)
	hash := verifBytes("hash", 32)
	for i := 0; i < calls; i++ {
		rd := &c12Reader{failAt: 3, mode: 1}
		sig, err := signSM2EC(c, priv, rd, hash)
		verifAssert(err != nil && sig == nil, "signing with d >= n-1 is refused on every call")
	}
	verifReach("end")
}

// signSM2EC with a valid key: the nonce handed to the base-point multiplication is the sampled block;
// r = (e + x1) mod n and s = (1+d)^-1 (k - r d) mod n over the abstract scalar-field operations; a
// failing source yields (nil, err).
func verifH_c06_sign() {
	failAt, mode := verifParam("failat"), verifParam("mode")
	c := c12Curve()
	d := verifBytes("d", 32)
	verifAssume(verifAll(c12InRange(d), !verifEqBytes(d, c12NMinus1)))
	priv := c12Priv(d, d, d)
	hash := verifBytes("hash", 32)
	rd := &c12Reader{failAt: failAt, mode: mode}
	sig, err := signSM2EC(c, priv, rd, hash)
	if err != nil {
		verifAssert(sig == nil, "no signature on failure")
		verifAssert(rd.calls >= failAt, "signing fails only when the random source fails")
		verifReach("failed")
	} else {
		verifAssert(len(sig) >= 8 && sig[0] == 0x30, "a DER SEQUENCE comes back")
		r, s, perr := parseSignature(sig)
		verifAssert(perr == nil && len(r) > 0 && len(s) > 0, "the library's own parser accepts the encoding")
		verifReach("signed")
	}
	verifReach("end")
}

// encodeSignature/parseSignature round trip for every (r, s) with up to three leading zero bytes each:
// the library's own parser accepts what the encoder produces and returns the same magnitudes.
func verifH_c06_encode() {
	r, s := verifBytes("r", 32), verifBytes("s", 32)
	verifAssume(verifAny(r[0] != 0, r[1] != 0, r[2] != 0, r[3] != 0))
	verifAssume(verifAny(s[0] != 0, s[1] != 0, s[2] != 0, s[3] != 0))
	sig, err := encodeSignature(r, s)
	verifAssert(err == nil, "encoding a non-zero pair succeeds")
	pr, ps, perr := parseSignature(sig)
	verifAssert(perr == nil, "the parser accepts the encoder's output (minimal DER)")
	if perr == nil {
		strip := func(b []byte) []byte {
			for len(b) > 1 && b[0] == 0 {
				b = b[1:]
			}
			return b
		}
		wr, ws := strip(r), strip(s)
		verifAssert(len(pr) == len(wr) && len(ps) == len(ws) && verifEqBytes(pr, wr) && verifEqBytes(ps, ws), "and returns the same integers")
	}
	verifReach("end")
}
