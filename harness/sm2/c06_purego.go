package sm2

import (
	"crypto/ecdsa"
	"math/big"

	"github.com/emmansun/gmsm/internal/bigmod"
	_sm2ec "github.com/emmansun/gmsm/internal/sm2ec"
)

// C06 (narrow): the signature parser's accept set.

// reference: strict DER SEQUENCE { INTEGER r, INTEGER s }, both non-negative and minimally encoded, no
// trailing bytes; returns the magnitudes (without the sign-padding zero).  Lengths < 128 within the bound.
func c06DERInt(b []byte, off, end int) (val []byte, next int, ok bool) {
	if off+2 > end || b[off] != 0x02 {
		return nil, 0, false
	}
	l := b[off+1]
	if l >= 0x80 || l == 0 {
		return nil, 0, false
	}
	n := verifConcretize(int(l))
	off += 2
	if off+n > end {
		return nil, 0, false
	}
	v := b[off : off+n]
	if v[0]&0x80 != 0 {
		return nil, 0, false // negative
	}
	if n > 1 && v[0] == 0 && v[1]&0x80 == 0 {
		return nil, 0, false // non-minimal
	}
	if n > 1 && v[0] == 0 {
		v = v[1:]
	}
	return v, off + n, true
}

func c06DERSig(b []byte) (r, s []byte, ok bool) {
	n := len(b)
	if n < 2 || b[0] != 0x30 {
		return nil, nil, false
	}
	l := b[1]
	if l >= 0x80 {
		return nil, nil, false
	}
	if 2+verifConcretize(int(l)) != n {
		return nil, nil, false
	}
	r, off, ok := c06DERInt(b, 2, n)
	if !ok {
		return nil, nil, false
	}
	s, off, ok = c06DERInt(b, off, n)
	if !ok || off != n {
		return nil, nil, false
	}
	return r, s, true
}

func verifH_c06_parse() {
	n := verifParam("n")
	b := verifBytes("sig", n)
	keep := append([]byte(nil), b...)
	r, s, err := parseSignature(b)
	wr, ws, ok := c06DERSig(keep)
	verifAssert((err == nil) == ok, "parseSignature accepts exactly strict DER SEQUENCE{INTEGER,INTEGER} with non-negative minimal integers and no trailing bytes")
	if err == nil && ok {
		verifAssert(len(r) == len(wr) && len(s) == len(ws) && verifEqBytes(r, wr) && verifEqBytes(s, ws), "returned magnitudes")
		verifReach("accepted")
	}
	verifReach("end")
}

// Signing with a private scalar >= n-1: every call returns an error, however often it is repeated,
// and never panics.
func verifH_c06_history() {
	calls := verifParam("calls")
	c := c12Curve()
	// representatives of d >= n-1: n-1, n, n+1, 2^256-1
	d := append([]byte(nil), c12NMinus1...)
	switch verifParam("dsel") {
	case 1:
		d = append([]byte(nil), c12N...)
	case 2:
		d = append([]byte(nil), c12N...)
		d[31]++
	case 3:
		for i := range d {
			d[i] = 0xFF
		}
	}
	priv := c12Priv(d, d, d)
	hash := verifBytes("hash", 32)
	for i := 0; i < calls; i++ {
		rd := &c12Reader{failAt: 3, mode: 1}
		sig, err := signSM2EC(c, priv, rd, hash)
		verifAssert(err != nil && sig == nil, "signing with d >= n-1 is refused on every call")
	}
	verifReach("end")
}

// signSM2EC with a valid key: the nonce handed to the base-point multiplication is the sampled block;
// r = (e + x1) mod n and s = (1+d)^-1 (k - r d) mod n over the abstract scalar-field operations; a
// failing source yields (nil, err).
func verifH_c06_sign() {
	failAt, mode := verifParam("failat"), verifParam("mode")
	c := c12Curve()
	d := verifBytes("d", 32)
	verifAssume(verifAll(c12InRange(d), !verifEqBytes(d, c12NMinus1)))
	priv := c12Priv(d, d, d)
	hash := verifBytes("hash", 32)
	rd := &c12Reader{failAt: failAt, mode: mode}
	sig, err := signSM2EC(c, priv, rd, hash)
	if err != nil {
		verifAssert(sig == nil, "no signature on failure")
		verifAssert(rd.calls >= failAt, "signing fails only when the random source fails")
		verifReach("failed")
	} else {
		verifAssert(len(sig) >= 8 && sig[0] == 0x30, "a DER SEQUENCE comes back")
		r, s, perr := parseSignature(sig)
		verifAssert(perr == nil && len(r) > 0 && len(s) > 0, "the library's own parser accepts the encoding")
		verifReach("signed")
	}
	verifReach("end")
}

// encodeSignature/parseSignature round trip for every (r, s) with up to three leading zero bytes each:
// the library's own parser accepts what the encoder produces and returns the same magnitudes.
func verifH_c06_encode() {
	r, s := verifBytes("r", 32), verifBytes("s", 32)
	verifAssume(verifAny(r[0] != 0, r[1] != 0, r[2] != 0, r[3] != 0))
	verifAssume(verifAny(s[0] != 0, s[1] != 0, s[2] != 0, s[3] != 0))
	sig, err := encodeSignature(r, s)
	verifAssert(err == nil, "encoding a non-zero pair succeeds")
	pr, ps, perr := parseSignature(sig)
	verifAssert(perr == nil, "the parser accepts the encoder's output (minimal DER)")
	if perr == nil {
		strip := func(b []byte) []byte {
			for len(b) > 1 && b[0] == 0 {
				b = b[1:]
			}
			return b
		}
		wr, ws := strip(r), strip(s)
		verifAssert(len(pr) == len(wr) && len(ps) == len(ws) && verifEqBytes(pr, wr) && verifEqBytes(ps, ws), "and returns the same integers")
	}
	verifReach("end")
}

// ---- GB/T 32918.2 signing and verification as DATA FLOW over the abstract arithmetic ----------------
// Scalar-field multiplication/inversion and the group operations are uninterpreted (the same functions
// the models in harness/internal/{bigmod,sm2ec} hand to the code); additions, subtractions, reductions,
// comparisons with zero and with n, and the control flow (retries, rejections) are decided exactly.

var c06One = append(make([]byte, 31), 1)

// modular addition/subtraction/reduction are the library's own limb code (internal/bigmod), which is
// proved equal to integer arithmetic modulo n separately (verifH_bigmod_addsub); using it here keeps
// the obligations of the data-flow harnesses syntactic.
// curve context for the harnesses that abstract modular addition/subtraction: n-1 and n-2 as constants
func c06Curve() *sm2Curve {
	c := c12Curve()
	if verifSymbolic() {
		c.nMinus1 = bigmod.VerifNatRaw(c12NMinus1, c.N)
		nm2 := append([]byte(nil), c12NMinus1...)
		nm2[31]--
		c.nMinus2 = nm2
	}
	return c
}

func c06Nat(c *sm2Curve, x []byte) *bigmod.Nat { return bigmod.VerifNatRaw(x, c.N) }

// x < 2^256 < 2n  ->  x mod n
func c06Reduce(c *sm2Curve, x []byte) []byte {
	n, err := bigmod.NewNat().SetOverflowingBytes(x, c.N)
	if err != nil {
		panic("c06Reduce")
	}
	return n.Bytes(c.N)
}

func c06AddN(c *sm2Curve, a, b []byte) []byte { return c06Nat(c, a).Add(c06Nat(c, b), c.N).Bytes(c.N) }

func c06SubN(c *sm2Curve, a, b []byte) []byte { return c06Nat(c, a).Sub(c06Nat(c, b), c.N).Bytes(c.N) }

func c06IsZero(c *sm2Curve, x []byte) bool { return bigmod.VerifIsZero(x, c.N) }

// in [1, n-1]
func c06InRange(c *sm2Curve, x []byte) bool {
	return verifAll(bigmod.VerifBelow(x, c.N), !bigmod.VerifIsZero(x, c.N))
}

func c06Big(b []byte) *big.Int { return new(big.Int).SetBytes(b) }

func c06Mul(a, b []byte) []byte {
	if verifSymbolic() {
		return verifUF("fn.mul.comm", 32, a, b)
	}
	r := new(big.Int).Mul(c06Big(a), c06Big(b))
	return r.Mod(r, c06Big(c12N)).FillBytes(make([]byte, 32))
}

func c06Inv(a []byte) []byte {
	if verifSymbolic() {
		return verifUF("fn.inv", 32, a)
	}
	r := new(big.Int).ModInverse(c06Big(a), c06Big(c12N))
	if r == nil {
		return make([]byte, 32)
	}
	return r.FillBytes(make([]byte, 32))
}

// affine coordinates of [k]G
func c06G(c *sm2Curve, k []byte) (x, y []byte) {
	if verifSymbolic() {
		return verifUF("G.x", 32, k), verifUF("G.y", 32, k)
	}
	p, err := c.newPoint().ScalarBaseMult(k)
	if err != nil {
		return make([]byte, 32), make([]byte, 32)
	}
	b := p.Bytes()
	if len(b) != 65 {
		return make([]byte, 32), make([]byte, 32)
	}
	return b[1:33], b[33:]
}

// one pass of the signing loop with nonce k (in range): r = (e + x1) mod n, s = (1+d)^-1 (k - r d) mod n;
// bad: the standard asks for another nonce (r = 0, r + k = n, or s = 0)
func c06SignSpec(c *sm2Curve, k, d, e []byte) (r, s []byte, bad bool) {
	x1, _ := c06G(c, k)
	r = c06AddN(c, c06Reduce(c, x1), e)
	t := c06AddN(c, k, r)
	rd := c06Mul(d, r)
	inv := c06Inv(c06AddN(c, d, c06One))
	s = c06Mul(c06SubN(c, k, rd), inv)
	bad = verifAny(c06IsZero(c, r), c06IsZero(c, t), c06IsZero(c, s))
	return
}

// summary of encodeSignature for the data-flow harness: hands the operands over (ghost) and returns a
// fixed-size stand-in
var c06SigR, c06SigS []byte

func verifModel_encodeSignature(r, s []byte) ([]byte, error) {
	c06SigR, c06SigS = append([]byte(nil), r...), append([]byte(nil), s...)
	return append(append([]byte{0x30}, r...), s...), nil
}

func c06Pad32(b []byte) []byte {
	if len(b) >= 32 {
		return b[len(b)-32:]
	}
	return append(make([]byte, 32-len(b)), b...)
}

// signSM2EC on a valid key with a scripted source (two blocks, then failure): the signature is the
// standard's (r, s) for the FIRST delivered block that is in range and needs no retry; every earlier
// block was unacceptable (out of range, or r = 0, r + k = n, s = 0); each pass uses the unmodified d.
func verifH_c06_signspec() {
	c := c06Curve()
	d := verifBytes("d", 32)
	verifAssume(verifAll(c06InRange(c, d), !verifEqBytes(d, c12NMinus1)))
	verifAssume(d[0] != 0)
	priv := c12Priv(d, d, d)
	hash := verifBytes("hash", 32)
	k1, k2 := verifBytes("k1", 32), verifBytes("k2", 32)
	if verifSymbolic() {
		verifAssume(!c06IsZero(c, c06AddN(c, d, c06One)))                   // d != n-1, so d + 1 != 0 (addition is abstract here)
		verifAssume(bigmod.VerifBelow(c06Inv(c06AddN(c, d, c06One)), c.N)) // an inverse modulo n lies below n
		e := c06Reduce(c, hash)
		for _, k := range [][]byte{k1, k2} {
			_, _, _ = c06SignSpec(c, k, d, e)
		}
	} else if k1[31]&3 == 1 && c12InRange(k1) && c12InRange(k2) {
		// native instance finder for the retry paths: choose the digest so that the first pass ends
		// with s = 0, i.e. k1 = r1 d, e = r1 - x([k1]G) ...
		r1 := c06Mul(k1, c06Inv(d))
		x1, _ := c06G(c, k1)
		hash = c06SubN(c, r1, c06Reduce(c, x1))
	} else if k1[31]&3 == 2 && c12InRange(k1) && c12InRange(k2) {
		// ... or with r + k = n, i.e. e = -k1 - x([k1]G)
		x1, _ := c06G(c, k1)
		hash = c06SubN(c, c06SubN(c, make([]byte, 32), k1), c06Reduce(c, x1))
	}
	rd := &c12Reader{failAt: 3, mode: 1, preset: [][]byte{k1, k2}}
	sig, err := signSM2EC(c, priv, rd, hash)
	e := c06Reduce(c, hash)
	n := len(rd.given)
	for i, k := range rd.given {
		r, s, bad := c06SignSpec(c, k, d, e)
		ok := verifAll(c06InRange(c, k), !bad)
		if err == nil && i == n-1 {
			verifAssert(ok, "the nonce of the returned signature is in range and needs no retry")
			var pr, ps []byte
			var perr error
			if verifSymbolic() {
				// the DER encoder is summarised (verifModel_encodeSignature hands over the operands);
				// encoder and parser are decided for every (r, s) by verifH_c06_encode / verifH_c06_parse
				pr, ps = c06SigR, c06SigS
				verifAssert(len(sig) == 65 && len(pr) == 32 && len(ps) == 32, "the signature is what the encoder returned")
			} else {
				pr, ps, perr = parseSignature(sig)
			}
			verifAssert(perr == nil && len(pr) <= 32 && len(ps) <= 32, "a strict DER pair of at most 32-byte integers comes back")
			if perr == nil && len(pr) <= 32 && len(ps) <= 32 {
				verifAssert(verifEqBytes(c06Pad32(pr), r), "r = (e + x1) mod n for the accepted nonce")
				verifAssert(verifEqBytes(c06Pad32(ps), s), "s = (1+d)^-1 (k - r d) mod n with the caller's d, on every pass")
			}
		} else {
			verifAssert(!ok, "a block is passed over only if it is out of range or the standard asks for a retry")
		}
	}
	if err != nil {
		verifAssert(sig == nil, "no signature on failure")
		verifAssert(rd.calls >= 3, "signing fails only when the random source fails")
		verifReach("failed")
	} else {
		verifAssert(n >= 1, "a signature needs a nonce")
		if n == 2 {
			_, _, bad1 := c06SignSpec(c, rd.given[0], d, e)
			if verifAll(c06InRange(c, rd.given[0]), bad1) {
				verifReach("retried") // first nonce in range, but r = 0, r + k = n or s = 0
			}
		}
		verifReach("signed")
	}
	verifReach("end")
}

// minimal DER INTEGER of a 32-byte magnitude with lz leading zero bytes (lz = 32: the value zero)
func c06EncInt(out, v []byte, lz int) []byte {
	if lz >= 32 {
		return append(out, 2, 1, 0)
	}
	m := v[lz:]
	if m[0]&0x80 != 0 {
		out = append(out, 2, byte(len(m)+1), 0)
	} else {
		out = append(out, 2, byte(len(m)))
	}
	return append(out, m...)
}

// verifySM2EC returns true exactly if r, s in [1, n-1], the key is a curve point with canonical
// coordinates, t = r + s != 0 mod n, [s]G + [t]Q is finite and (e + x1) mod n = r.
func verifH_c06_verifyspec() {
	lzr, lzs := verifParam("lzr"), verifParam("lzs")
	c := c06Curve()
	r, s := verifBytes("r", 32), verifBytes("s", 32)
	for i := 0; i < 32; i++ {
		if i < lzr {
			r[i] = 0
		} else if i == lzr {
			verifAssume(r[i] != 0)
		}
		if i < lzs {
			s[i] = 0
		} else if i == lzs {
			verifAssume(s[i] != 0)
		}
	}
	qx, qy := verifBytes("qx", 32), verifBytes("qy", 32)
	verifAssume(qx[0] != 0) // full-length coordinates: one math/big length class
	verifAssume(qy[0] != 0)
	hash := verifBytes("hash", 32)
	if !verifSymbolic() {
		// native instance finder: a real public key; (r, s) are the replayed / random values
		dq := append([]byte(nil), qx...)
		dq[0] &= 0x7f
		dq[31] |= 1
		qx, qy = c06G(c, dq)
		if qx[0] == 0 || qy[0] == 0 {
			verifReach("end")
			return
		}
		// ... and, for half of the candidates, the pair the standard's t = 0 test exists for: r = n - s
		// with the digest that makes the remaining equation hold without the public key
		if lzr == 0 && lzs == 0 && s[31]&1 == 1 && c12InRange(s) {
			nr := c06SubN(c, make([]byte, 32), s)
			if nr[0] != 0 {
				r = nr
				x1, _ := c06G(c, s)
				hash = c06SubN(c, r, c06Reduce(c, x1))
			}
		}
	}
	body := c06EncInt(nil, r, lzr)
	body = c06EncInt(body, s, lzs)
	sig := append([]byte{0x30, byte(len(body))}, body...)
	pub := &ecdsa.PublicKey{Curve: c12EllipticCurve(), X: c06Big(qx), Y: c06Big(qy)}
	got := verifySM2EC(c, pub, hash, sig)

	var want bool
	if verifSymbolic() {
		onCurve := verifAll(_sm2ec.VerifOnCurve(qx, qy), c12Less(qx, c12P), c12Less(qy, c12P))
		t := c06AddN(c, r, s)
		p1x, p1y := verifUF("G.x", 32, s), verifUF("G.y", 32, s)
		p2x, p2y := verifUF("M.x", 32, qx, qy, t), verifUF("M.y", 32, qx, qy, t)
		sx := verifUF("A.x", 32, p1x, p1y, p2x, p2y)
		inf := verifUF("A.inf", 1, p1x, p1y, p2x, p2y)[0]&1 == 1
		rr := c06AddN(c, c06Reduce(c, sx), c06Reduce(c, hash))
		want = verifAll(c06InRange(c, r), c06InRange(c, s), onCurve, !c06IsZero(c, t), !inf, verifEqBytes(rr, r))
		verifAssert(got == want, "verification accepts exactly: r, s in [1,n-1], valid key, r+s != 0 mod n, finite sum, (e + x1) mod n = r")
	} else {
		// natively: exact integers and the real group
		ok := c12InRange(r) && c12InRange(s)
		if ok {
			t := c06AddN(c, r, s)
			ok = !c12IsZero(t)
			if ok {
				q, err := c.newPoint().SetBytes(append(append([]byte{4}, qx...), qy...))
				p1, _ := c.newPoint().ScalarBaseMult(s)
				if err != nil {
					ok = false
				} else {
					p2, _ := c.newPoint().ScalarMult(q, t)
					x1, xerr := p1.Add(p1, p2).BytesX()
					ok = xerr == nil && verifEqBytes(c06AddN(c, c06Reduce(c, x1), c06Reduce(c, hash)), r)
				}
			}
		}
		verifAssert(got == ok, "verification accepts exactly: r, s in [1,n-1], valid key, r+s != 0 mod n, finite sum, (e + x1) mod n = r")
	}
	_ = want
	if got {
		verifReach("accepted")
	}
	verifReach("end")
}
