package sm2

import (
	"crypto/ecdsa"
	"crypto/elliptic"
	"errors"
	"io"
	"math/big"

	"github.com/emmansun/gmsm/internal/bigmod"
	_sm2ec "github.com/emmansun/gmsm/internal/sm2ec"
)

// Shared set-up for the sm2 harnesses (C06, C07, C12, C13): the SM2 curve context is built without the
// math/big parameter tables; group and field arithmetic are abstract (harness/internal/sm2ec).

var c12N = []byte{0xFF, 0xFF, 0xFF, 0xFE, 0xFF, 0xFF, 0xFF, 0xFF, 0xFF, 0xFF, 0xFF, 0xFF, 0xFF, 0xFF, 0xFF, 0xFF,
	0x72, 0x03, 0xDF, 0x6B, 0x21, 0xC6, 0x05, 0x2B, 0x53, 0xBB, 0xF4, 0x09, 0x39, 0xD5, 0x41, 0x23}
var c12P = []byte{0xFF, 0xFF, 0xFF, 0xFE, 0xFF, 0xFF, 0xFF, 0xFF, 0xFF, 0xFF, 0xFF, 0xFF, 0xFF, 0xFF, 0xFF, 0xFF,
	0xFF, 0xFF, 0xFF, 0xFF, 0x00, 0x00, 0x00, 0x00, 0xFF, 0xFF, 0xFF, 0xFF, 0xFF, 0xFF, 0xFF, 0xFF}

type c12Params struct {
	elliptic.Curve
	p *elliptic.CurveParams
}

func (c c12Params) Params() *elliptic.CurveParams { return c.p }

func c12Curve() *sm2Curve {
	if !verifSymbolic() {
		c := p256()
		// the constants above are the curve's
		if string(c.N.Nat().Bytes(c.N)) != string(c12N) || string(c.P.Nat().Bytes(c.P)) != string(c12P) {
			panic("harness constants differ from the curve parameters")
		}
		return c
	}
	c := &sm2Curve{newPoint: func() *_sm2ec.SM2P256Point { return _sm2ec.NewSM2P256Point() }}
	c.curve = c12Params{p: &elliptic.CurveParams{BitSize: 256}}
	c.N, _ = bigmod.NewModulus(c12N)
	c.P, _ = bigmod.NewModulus(c12P)
	c.nMinus1 = c.N.Nat().SubOne(c.N)
	c.nMinus2 = new(bigmod.Nat).Set(c.nMinus1).SubOne(c.N).Bytes(c.N)
	return c
}

func c12EllipticCurve() elliptic.Curve {
	if !verifSymbolic() {
		return P256()
	}
	return c12Params{p: &elliptic.CurveParams{BitSize: 256}}
}

// a < b on equal-length big-endian strings, as one boolean term
func c12Less(a, b []byte) bool {
	lt := false
	eq := true
	for i := range a {
		lt = verifAny(lt, verifAll(eq, a[i] < b[i]))
		eq = verifAll(eq, a[i] == b[i])
	}
	return lt
}

func c12IsZero(a []byte) bool {
	z := true
	for _, x := range a {
		z = verifAll(z, x == 0)
	}
	return z
}

// in [1, n-1]
func c12InRange(b []byte) bool { return verifAll(!c12IsZero(b), c12Less(b, c12N)) }

var c12NMinus1 = func() []byte {
	x := append([]byte(nil), c12N...)
	x[31]--
	return x
}()

// ---- scripted random source ----

var c12ErrSource = errors.New("random source failed")

type c12Reader struct {
	calls  int
	failAt int // 1-based call index at which the source misbehaves; 0 = never
	mode   int // 1: error; 2: delivers part of the block then EOF
	given  [][]byte
	preset [][]byte // blocks to hand out (created by the harness); fresh symbolic blocks otherwise
}

func (r *c12Reader) Read(p []byte) (int, error) {
	r.calls++
	if r.calls == r.failAt {
		if r.mode == 1 {
			return 0, c12ErrSource
		}
		half := len(p) / 2
		copy(p, verifBytes("partial", half))
		return half, io.EOF
	}
	if r.failAt > 0 && r.calls > r.failAt {
		return 0, io.EOF
	}
	var b []byte
	if len(r.given) < len(r.preset) && len(r.preset[len(r.given)]) == len(p) {
		b = r.preset[len(r.given)]
	} else {
		b = verifBytes("rnd", len(p))
	}
	copy(p, b)
	r.given = append(r.given, b)
	return len(p), nil
}

// randomPoint: the scalar is exactly the first sampled 32-byte block lying in the range, blocks are
// consumed in order, nothing is masked or reduced; a failing source gives an error and no scalar/point.
func verifH_c12_randompoint() {
	failAt, mode := verifParam("failat"), verifParam("mode")
	check := verifParam("checknm1") == 1
	c := c12Curve()
	rd := &c12Reader{failAt: failAt, mode: mode}
	if verifSymbolic() {
		_sm2ec.VerifBaseScalars = nil
	}
	k, p, err := randomPoint(c, rd, check)
	if err != nil {
		verifAssert(failAt > 0 && rd.calls >= failAt, "an error is reported only when the source failed")
		verifAssert(p == nil, "no point on failure")
		for _, b := range rd.given {
			ok := verifAll(c12InRange(b), verifAny(!check, !verifEqBytes(b, c12NMinus1)))
			verifAssert(!ok, "every block consumed before the failure was out of range")
		}
		verifReach("failed")
		verifReach("end")
		return
	}
	verifAssert(failAt == 0 || rd.calls < failAt, "no success after the source failed")
	n := len(rd.given)
	verifAssert(n >= 1 && p != nil, "at least one block consumed")
	last := rd.given[n-1]
	verifAssert(verifEqBytes(k.Bytes(c.N), last), "the scalar is exactly the last sampled block (no masking, no reduction)")
	verifAssert(verifAll(c12InRange(last), verifAny(!check, !verifEqBytes(last, c12NMinus1))), "the accepted block lies in the range")
	for _, b := range rd.given[:n-1] {
		ok := verifAll(c12InRange(b), verifAny(!check, !verifEqBytes(b, c12NMinus1)))
		verifAssert(!ok, "every earlier block was out of range (blocks are consumed in order, none skipped)")
	}
	if verifSymbolic() {
		bs := _sm2ec.VerifBaseScalars
		verifAssert(len(bs) == 1 && verifEqBytes(bs[0], last), "the point is the base-point multiple of that very scalar")
	}
	verifReach("ok")
	verifReach("end")
}

func c12Priv(d []byte, x, y []byte) *PrivateKey {
	priv := new(PrivateKey)
	priv.Curve = c12EllipticCurve()
	priv.D = new(big.Int).SetBytes(d)
	priv.X = new(big.Int).SetBytes(x)
	priv.Y = new(big.Int).SetBytes(y)
	return priv
}

var _ = ecdsa.PublicKey{}

func _sm2ecResetGhost() { _sm2ec.VerifBaseScalars = nil }

func _sm2ecLastBaseScalarIs(k []byte) bool {
	bs := _sm2ec.VerifBaseScalars
	return len(bs) >= 1 && verifEqBytes(bs[len(bs)-1], k)
}
