package bigmod

import "math/bits"

func verifBitsLen(n uint) int { return bits.Len(n) }

// Modular multiplication in bigmod is summarised by an uninterpreted function of the operands' limbs
// (Montgomery arithmetic is outside the claims that use this model); everything else in the package
// (SetBytes range checks, Add, Sub, IsZero, Equal, Bytes) is the real limb code.

func verifNatBytes(x *Nat) []byte {
	out := make([]byte, 0, 8*len(x.limbs))
	for i := len(x.limbs) - 1; i >= 0; i-- {
		w := x.limbs[i]
		out = append(out, byte(w>>56), byte(w>>48), byte(w>>40), byte(w>>32), byte(w>>24), byte(w>>16), byte(w>>8), byte(w))
	}
	return out
}

func verifModel_Nat_Mul(x *Nat, y *Nat, m *Modulus) *Nat {
	r := verifUF("fn.mul.comm", 8*len(x.limbs), verifNatBytes(x), verifNatBytes(y))
	// a product modulo m lies below m (the only fact about multiplication the model provides)
	verifAssume(VerifBelow(r, m))
	n := len(x.limbs)
	for i := 0; i < n; i++ {
		o := 8 * (n - 1 - i)
		x.limbs[i] = uint(r[o])<<56 | uint(r[o+1])<<48 | uint(r[o+2])<<40 | uint(r[o+3])<<32 | uint(r[o+4])<<24 | uint(r[o+5])<<16 | uint(r[o+6])<<8 | uint(r[o+7])
	}
	return x
}

// bitLen (a 65-way data-dependent loop) is summarised by math/bits.Len; equivalence for every
// word: verifH_bigmod_bitlen.
func verifModel_bitLen(n uint) int { return verifBitsLen(n) }

func verifH_bigmod_bitlen() {
	n := uint(verifU64("n"))
	verifAssert(bitLen(n) == verifBitsLen(n), "bitLen(n) = bits.Len(n) for every word")
	verifReach("end")
}

// VerifNatRaw: the Nat holding exactly the big-endian bytes b (len(b) = m.Size()), no range check and
// no reduction -- for reference computations whose operands are known to lie below m.
func VerifNatRaw(b []byte, m *Modulus) *Nat {
	x := NewNat().resetFor(m)
	if err := x.setBytes(b); err != nil {
		panic("VerifNatRaw: length")
	}
	return x
}

// VerifBelow: b < m, as the library's own constant-time comparison (same term as the code's range check;
// equivalence with the byte-wise lexicographic order: verifH_bigmod_cmp).
func VerifBelow(b []byte, m *Modulus) bool { return VerifNatRaw(b, m).cmpGeq(m.nat) == 0 }

// VerifIsZero: b = 0 as the library's own test (equivalence with the byte-wise test: verifH_bigmod_cmp).
func VerifIsZero(b []byte, m *Modulus) bool { return VerifNatRaw(b, m).IsZero() == 1 }

func verifSetNatBytes(x *Nat, r []byte) {
	n := len(x.limbs)
	for i := 0; i < n; i++ {
		o := 8 * (n - 1 - i)
		x.limbs[i] = uint(r[o])<<56 | uint(r[o+1])<<48 | uint(r[o+2])<<40 | uint(r[o+3])<<32 | uint(r[o+4])<<24 | uint(r[o+5])<<16 | uint(r[o+6])<<8 | uint(r[o+7])
	}
}

// Abstract modular addition/subtraction (used by the data-flow harnesses of C06/C08/C10, where only WHICH
// operation is applied to WHICH operands matters): uninterpreted functions with results below m.  That
// the real limb code computes (x ± y) mod m is decided separately (verifH_bigmod_addsub).
func verifModel_Nat_Add(x *Nat, y *Nat, m *Modulus) *Nat {
	r := verifUF("fn.add.comm", 8*len(x.limbs), verifNatBytes(x), verifNatBytes(y))
	verifAssume(VerifBelow(r, m))
	verifSetNatBytes(x, r)
	return x
}

func verifModel_Nat_Sub(x *Nat, y *Nat, m *Modulus) *Nat {
	r := verifUF("fn.sub", 8*len(x.limbs), verifNatBytes(x), verifNatBytes(y))
	verifAssume(VerifBelow(r, m))
	verifSetNatBytes(x, r)
	return x
}

// ---- lemmas about the real limb code, for a 256-bit modulus with the top bit set (SM2 n, SM2 p, SM9 n) ----

func verifWideLess(a, b []byte) bool {
	d := verifWideSub(append([]byte{0}, a...), append([]byte{0}, b...))
	return d[0] != 0
}

func verifLemmaModulus() (*Modulus, []byte) {
	var mb []byte
	switch verifParam("mod") {
	case 0: // SM2 group order
		mb = []byte{0xFF, 0xFF, 0xFF, 0xFE, 0xFF, 0xFF, 0xFF, 0xFF, 0xFF, 0xFF, 0xFF, 0xFF, 0xFF, 0xFF, 0xFF, 0xFF, 0x72, 0x03, 0xDF, 0x6B, 0x21, 0xC6, 0x05, 0x2B, 0x53, 0xBB, 0xF4, 0x09, 0x39, 0xD5, 0x41, 0x23}
	default: // SM9 group order
		mb = []byte{0xB6, 0x40, 0x00, 0x00, 0x02, 0xA3, 0xA6, 0xF1, 0xD6, 0x03, 0xAB, 0x4F, 0xF5, 0x8E, 0xC7, 0x44, 0x49, 0xF2, 0x93, 0x4B, 0x18, 0xEA, 0x8B, 0xEE, 0xE5, 0x6E, 0xE1, 0x9C, 0xD6, 0x9E, 0xCF, 0x25}
	}
	m, err := NewModulus(mb)
	if err != nil {
		panic("modulus")
	}
	return m, mb
}

// cmpGeq / IsZero / SetBytes / SetOverflowingBytes against byte-level definitions, every 32-byte value
func verifH_bigmod_cmp() {
	m, mb := verifLemmaModulus()
	x := verifBytes("x", 32)
	below := verifWideLess(x, mb)
	verifAssert(VerifBelow(x, m) == below, "cmpGeq(x, m) = 0 exactly if x < m")
	zero := true
	for _, b := range x {
		zero = verifAll(zero, b == 0)
	}
	verifAssert(VerifIsZero(x, m) == zero, "IsZero exactly for the zero string")
	keep := append([]byte(nil), x...)
	n, err := NewNat().SetBytes(x, m)
	verifAssert((err == nil) == below, "SetBytes accepts exactly the values below m")
	if err == nil {
		verifAssert(verifEqBytes(n.Bytes(m), keep), "and stores them verbatim")
	}
	o, oerr := NewNat().SetOverflowingBytes(x, m)
	verifAssert(oerr == nil, "SetOverflowingBytes accepts every 32-byte value for a 256-bit modulus")
	if oerr == nil {
		red := verifIteBytes(below, keep, verifWideSub(keep, mb))
		verifAssert(verifEqBytes(o.Bytes(m), red), "and subtracts the modulus once if needed")
	}
	verifReach("end")
}

// Add / Sub = (x ± y) mod m for all x, y below m
func verifH_bigmod_addsub() {
	m, mb := verifLemmaModulus()
	x, y := verifBytes("x", 32), verifBytes("y", 32)
	verifAssume(verifAll(verifWideLess(x, mb), verifWideLess(y, mb)))
	x33, y33, m33 := append([]byte{0}, x...), append([]byte{0}, y...), append([]byte{0}, mb...)
	if verifParam("op") == 0 {
		s := verifWideAdd(x33, y33)
		d := verifWideSub(s, m33)
		want := verifIteBytes(d[0] != 0, s, d)[1:]
		got := VerifNatRaw(x, m).Add(VerifNatRaw(y, m), m).Bytes(m)
		verifAssert(verifEqBytes(got, want), "Nat.Add = (x + y) mod m")
	} else {
		d := verifWideSub(x33, y33)
		e := verifWideAdd(d, m33)
		want := verifIteBytes(d[0] != 0, e, d)[1:]
		got := VerifNatRaw(x, m).Sub(VerifNatRaw(y, m), m).Bytes(m)
		verifAssert(verifEqBytes(got, want), "Nat.Sub = (x - y) mod m")
	}
	verifReach("end")
}
