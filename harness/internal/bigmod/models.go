package bigmod

import "math/bits"

func verifBitsLen(n uint) int { return bits.Len(n) }

// Modular multiplication in bigmod is summarised by an uninterpreted function of the operands' limbs
// (Montgomery arithmetic is outside the claims that use this model); everything else in the package
// (SetBytes range checks, Add, Sub, IsZero, Equal, Bytes) is the real limb code.

func verifNatBytes(x *Nat) []byte {
	out := make([]byte, 0, 8*len(x.limbs))
	for i := len(x.limbs) - 1; i >= 0; i-- {
		w := x.limbs[i]
		out = append(out, byte(w>>56), byte(w>>48), byte(w>>40), byte(w>>32), byte(w>>24), byte(w>>16), byte(w>>8), byte(w))
	}
	return out
}

func verifModel_Nat_Mul(x *Nat, y *Nat, m *Modulus) *Nat {
	r := verifUF("fn.mul", 8*len(x.limbs), verifNatBytes(x), verifNatBytes(y))
	n := len(x.limbs)
	for i := 0; i < n; i++ {
		o := 8 * (n - 1 - i)
		x.limbs[i] = uint(r[o])<<56 | uint(r[o+1])<<48 | uint(r[o+2])<<40 | uint(r[o+3])<<32 | uint(r[o+4])<<24 | uint(r[o+5])<<16 | uint(r[o+6])<<8 | uint(r[o+7])
	}
	return x
}

// bitLen (a 65-way data-dependent loop) is summarised by math/bits.Len; equivalence for every
// word: verifH_bigmod_bitlen.
func verifModel_bitLen(n uint) int { return verifBitsLen(n) }

func verifH_bigmod_bitlen() {
	n := uint(verifU64("n"))
	verifAssert(bitLen(n) == verifBitsLen(n), "bitLen(n) = bits.Len(n) for every word")
	verifReach("end")
}
