package sm2ec

import (
	"errors"
	"unsafe"

	"github.com/emmansun/gmsm/internal/sm2ec/fiat"
)

// Abstract group model (purego configuration) used by the sm2/ecdh harnesses: a point is the pair of
// its affine coordinate byte strings (stored in the plain-domain field elements x, y; z = 1, or z = 0
// for infinity); group operations are uninterpreted functions of the operands' coordinates.  Scalars
// handed to the base-point multiplication are recorded (ghost) so that harnesses can state which
// scalar was used.  Curve arithmetic is outside every claim using this model.

func verifLimbs(e *fiat.SM2P256Element) *[4]uint64 { return (*[4]uint64)(unsafe.Pointer(e)) }

func verifElemBytes(e *fiat.SM2P256Element) []byte {
	x := verifLimbs(e)
	out := make([]byte, 0, 32)
	for i := 3; i >= 0; i-- {
		w := x[i]
		out = append(out, byte(w>>56), byte(w>>48), byte(w>>40), byte(w>>32), byte(w>>24), byte(w>>16), byte(w>>8), byte(w))
	}
	return out
}

func verifSetElem(e *fiat.SM2P256Element, b []byte) {
	x := verifLimbs(e)
	for i := 0; i < 4; i++ {
		o := 8 * (3 - i)
		x[i] = uint64(b[o])<<56 | uint64(b[o+1])<<48 | uint64(b[o+2])<<40 | uint64(b[o+3])<<32 | uint64(b[o+4])<<24 | uint64(b[o+5])<<16 | uint64(b[o+6])<<8 | uint64(b[o+7])
	}
}

func verifInf(p *SM2P256Point) bool {
	z := verifLimbs(&p.z)
	return z[0]|z[1]|z[2]|z[3] == 0
}

func verifSetPoint(p *SM2P256Point, x, y []byte, inf bool) {
	verifSetElem(&p.x, x)
	verifSetElem(&p.y, y)
	z := verifLimbs(&p.z)
	one := uint64(1)
	if inf {
		one = 0
	}
	z[0], z[1], z[2], z[3] = one, 0, 0, 0
}

// VerifBaseScalars records every scalar handed to ScalarBaseMult (ghost state for the harnesses).
var VerifBaseScalars [][]byte

func verifModel_ScalarBaseMult(p *SM2P256Point, scalar []byte) (*SM2P256Point, error) {
	if len(scalar) != 32 {
		return nil, errors.New("invalid scalar length")
	}
	s := append([]byte(nil), scalar...)
	VerifBaseScalars = append(VerifBaseScalars, s)
	verifSetPoint(p, verifUF("G.x", 32, s), verifUF("G.y", 32, s), false)
	return p, nil
}

// VerifDH: Diffie-Hellman facts of the prime-order group registered by a harness: [S]P = [T]R.  The
// model of ScalarMult returns the same uninterpreted value for both sides (the left one is canonical).
type VerifDHFact struct{ PX, PY, S, RX, RY, T []byte }

var VerifDH []VerifDHFact

func verifModel_ScalarMult(p *SM2P256Point, q *SM2P256Point, scalar []byte) (*SM2P256Point, error) {
	if len(scalar) != 32 {
		return nil, errors.New("invalid scalar length")
	}
	qx, qy := verifElemBytes(&q.x), verifElemBytes(&q.y)
	s := append([]byte(nil), scalar...)
	for _, f := range VerifDH {
		if verifSameBytes(qx, f.RX) && verifSameBytes(qy, f.RY) && verifSameBytes(s, f.T) {
			qx, qy, s = f.PX, f.PY, f.S
			break
		}
	}
	verifSetPoint(p, verifUF("M.x", 32, qx, qy, s), verifUF("M.y", 32, qx, qy, s), verifInf(q))
	return p, nil
}

func verifModel_Add(q *SM2P256Point, p1, p2 *SM2P256Point) *SM2P256Point {
	x1, y1, x2, y2 := verifElemBytes(&p1.x), verifElemBytes(&p1.y), verifElemBytes(&p2.x), verifElemBytes(&p2.y)
	inf := verifUF("A.inf", 1, x1, y1, x2, y2)[0]&1 == 1 // the sum may be the point at infinity (an opaque function of the operands)
	verifSetPoint(q, verifUF("A.x", 32, x1, y1, x2, y2), verifUF("A.y", 32, x1, y1, x2, y2), inf)
	return q
}

func verifModel_bytesX(p *SM2P256Point, out *[p256ElementLength]byte) ([]byte, error) {
	if verifInf(p) {
		return nil, errors.New("SM2P256 point is the point at infinity")
	}
	return append(out[:0], verifElemBytes(&p.x)...), nil
}

func verifModel_bytes(p *SM2P256Point, out *[p256UncompressedLength]byte) []byte {
	if verifInf(p) {
		return append(out[:0], 0)
	}
	buf := append(out[:0], 4)
	buf = append(buf, verifElemBytes(&p.x)...)
	buf = append(buf, verifElemBytes(&p.y)...)
	return buf
}

func verifModel_bytesCompressed(p *SM2P256Point, out *[p256CompressedLength]byte) []byte {
	if verifInf(p) {
		return append(out[:0], 0)
	}
	y := verifElemBytes(&p.y)
	buf := append(out[:0], 2|y[31]&1)
	buf = append(buf, verifElemBytes(&p.x)...)
	return buf
}

// curve membership is opaque
func verifModel_sm2p256CheckOnCurve(x, y *fiat.SM2P256Element) error {
	if VerifOnCurve(verifElemBytes(x), verifElemBytes(y)) {
		return nil
	}
	return errors.New("point not on SM2 P256 curve")
}

// VerifOnCurve: the opaque curve-membership predicate (an uninterpreted boolean function of the coordinates)
func VerifOnCurve(x, y []byte) bool { return verifUF("oncurve", 1, x, y)[0]&1 == 1 }

// square root for compressed points: opaque success flag, result an uninterpreted function of the input
func verifModel_sm2p256Sqrt(e, x *fiat.SM2P256Element) (isSquare bool) {
	in := verifElemBytes(x)
	if !verifBool("issquare") {
		return false
	}
	verifSetElem(e, verifUF("fp.sqrt", 32, in))
	return true
}

// scalar-field inverse: uninterpreted
func verifModel_P256OrdInverse(k []byte) ([]byte, error) {
	if len(k) != 32 {
		return nil, errors.New("invalid scalar length")
	}
	return verifUF("fn.inv", 32, k), nil
}

func verifModel_P256OrdMul(in1, in2 []byte) ([]byte, error) {
	if len(in1) != 32 || len(in2) != 32 {
		return nil, errors.New("invalid scalar length")
	}
	return verifUF("fn.mul.comm", 32, in1, in2), nil
}

// the package's init only maps the embedded generator table (unsafe conversion); the abstract group never
// reads it
func verifModel_noinit() {}
