package sm2ec

import (
	"math/big"
)

// C05 (assembly configuration): the Go drivers of the scalar multiplications -- window extraction, Booth
// recoding, table construction and selection, the conditional moves that route around the incomplete
// addition kernel -- executed over an EXACT-MULTIPLE model of the group: a point is the integer v such
// that it equals [v]Q for one fixed point Q of prime order n, kept as a 320-bit two's complement number
// (x = low 256 bits, y[0] = high 64 bits, y[1]&1 = pending negation, z = 0 for infinity).  The body-less
// kernels get contract models written from their documented contracts INCLUDING their undefinedness:
// p256PointAddAsm returns unconstrained garbage when an operand is the point at infinity or when both
// operands are the same point; equality of points is equality of the integers modulo n, decided exactly
// (|v| < 2^258 is tracked, so v1-v2 is a multiple of n iff it is one of 17 constants).

var c05FieldMode bool // true: elements are field elements (decoder harnesses); false: exact-multiple model
var c05RangeBad bool

var c05KN = [17][40]byte{
	{0xff,0xff,0xff,0xff,0xff,0xff,0xff,0xf8,0x00,0x00,0x00,0x08,0x00,0x00,0x00,0x00,0x00,0x00,0x00,0x00,0x00,0x00,0x00,0x04,0x6f,0xe1,0x04,0xa6,0xf1,0xcf,0xd6,0xa5,0x62,0x20,0x5f,0xb6,0x31,0x55,0xf6,0xe8},
	{0xff,0xff,0xff,0xff,0xff,0xff,0xff,0xf9,0x00,0x00,0x00,0x07,0x00,0x00,0x00,0x00,0x00,0x00,0x00,0x00,0x00,0x00,0x00,0x03,0xe1,0xe4,0xe4,0x12,0x13,0x95,0xdb,0xd0,0xb5,0xdc,0x53,0xbf,0x6b,0x2b,0x38,0x0b},
	{0xff,0xff,0xff,0xff,0xff,0xff,0xff,0xfa,0x00,0x00,0x00,0x06,0x00,0x00,0x00,0x00,0x00,0x00,0x00,0x00,0x00,0x00,0x00,0x03,0x53,0xe8,0xc3,0x7d,0x35,0x5b,0xe0,0xfc,0x09,0x98,0x47,0xc8,0xa5,0x00,0x79,0x2e},
	{0xff,0xff,0xff,0xff,0xff,0xff,0xff,0xfb,0x00,0x00,0x00,0x05,0x00,0x00,0x00,0x00,0x00,0x00,0x00,0x00,0x00,0x00,0x00,0x02,0xc5,0xec,0xa2,0xe8,0x57,0x21,0xe6,0x27,0x5d,0x54,0x3b,0xd1,0xde,0xd5,0xba,0x51},
	{0xff,0xff,0xff,0xff,0xff,0xff,0xff,0xfc,0x00,0x00,0x00,0x04,0x00,0x00,0x00,0x00,0x00,0x00,0x00,0x00,0x00,0x00,0x00,0x02,0x37,0xf0,0x82,0x53,0x78,0xe7,0xeb,0x52,0xb1,0x10,0x2f,0xdb,0x18,0xaa,0xfb,0x74},
	{0xff,0xff,0xff,0xff,0xff,0xff,0xff,0xfd,0x00,0x00,0x00,0x03,0x00,0x00,0x00,0x00,0x00,0x00,0x00,0x00,0x00,0x00,0x00,0x01,0xa9,0xf4,0x61,0xbe,0x9a,0xad,0xf0,0x7e,0x04,0xcc,0x23,0xe4,0x52,0x80,0x3c,0x97},
	{0xff,0xff,0xff,0xff,0xff,0xff,0xff,0xfe,0x00,0x00,0x00,0x02,0x00,0x00,0x00,0x00,0x00,0x00,0x00,0x00,0x00,0x00,0x00,0x01,0x1b,0xf8,0x41,0x29,0xbc,0x73,0xf5,0xa9,0x58,0x88,0x17,0xed,0x8c,0x55,0x7d,0xba},
	{0xff,0xff,0xff,0xff,0xff,0xff,0xff,0xff,0x00,0x00,0x00,0x01,0x00,0x00,0x00,0x00,0x00,0x00,0x00,0x00,0x00,0x00,0x00,0x00,0x8d,0xfc,0x20,0x94,0xde,0x39,0xfa,0xd4,0xac,0x44,0x0b,0xf6,0xc6,0x2a,0xbe,0xdd},
	{0x00,0x00,0x00,0x00,0x00,0x00,0x00,0x00,0x00,0x00,0x00,0x00,0x00,0x00,0x00,0x00,0x00,0x00,0x00,0x00,0x00,0x00,0x00,0x00,0x00,0x00,0x00,0x00,0x00,0x00,0x00,0x00,0x00,0x00,0x00,0x00,0x00,0x00,0x00,0x00},
	{0x00,0x00,0x00,0x00,0x00,0x00,0x00,0x00,0xff,0xff,0xff,0xfe,0xff,0xff,0xff,0xff,0xff,0xff,0xff,0xff,0xff,0xff,0xff,0xff,0x72,0x03,0xdf,0x6b,0x21,0xc6,0x05,0x2b,0x53,0xbb,0xf4,0x09,0x39,0xd5,0x41,0x23},
	{0x00,0x00,0x00,0x00,0x00,0x00,0x00,0x01,0xff,0xff,0xff,0xfd,0xff,0xff,0xff,0xff,0xff,0xff,0xff,0xff,0xff,0xff,0xff,0xfe,0xe4,0x07,0xbe,0xd6,0x43,0x8c,0x0a,0x56,0xa7,0x77,0xe8,0x12,0x73,0xaa,0x82,0x46},
	{0x00,0x00,0x00,0x00,0x00,0x00,0x00,0x02,0xff,0xff,0xff,0xfc,0xff,0xff,0xff,0xff,0xff,0xff,0xff,0xff,0xff,0xff,0xff,0xfe,0x56,0x0b,0x9e,0x41,0x65,0x52,0x0f,0x81,0xfb,0x33,0xdc,0x1b,0xad,0x7f,0xc3,0x69},
	{0x00,0x00,0x00,0x00,0x00,0x00,0x00,0x03,0xff,0xff,0xff,0xfb,0xff,0xff,0xff,0xff,0xff,0xff,0xff,0xff,0xff,0xff,0xff,0xfd,0xc8,0x0f,0x7d,0xac,0x87,0x18,0x14,0xad,0x4e,0xef,0xd0,0x24,0xe7,0x55,0x04,0x8c},
	{0x00,0x00,0x00,0x00,0x00,0x00,0x00,0x04,0xff,0xff,0xff,0xfa,0xff,0xff,0xff,0xff,0xff,0xff,0xff,0xff,0xff,0xff,0xff,0xfd,0x3a,0x13,0x5d,0x17,0xa8,0xde,0x19,0xd8,0xa2,0xab,0xc4,0x2e,0x21,0x2a,0x45,0xaf},
	{0x00,0x00,0x00,0x00,0x00,0x00,0x00,0x05,0xff,0xff,0xff,0xf9,0xff,0xff,0xff,0xff,0xff,0xff,0xff,0xff,0xff,0xff,0xff,0xfc,0xac,0x17,0x3c,0x82,0xca,0xa4,0x1f,0x03,0xf6,0x67,0xb8,0x37,0x5a,0xff,0x86,0xd2},
	{0x00,0x00,0x00,0x00,0x00,0x00,0x00,0x06,0xff,0xff,0xff,0xf8,0xff,0xff,0xff,0xff,0xff,0xff,0xff,0xff,0xff,0xff,0xff,0xfc,0x1e,0x1b,0x1b,0xed,0xec,0x6a,0x24,0x2f,0x4a,0x23,0xac,0x40,0x94,0xd4,0xc7,0xf5},
	{0x00,0x00,0x00,0x00,0x00,0x00,0x00,0x07,0xff,0xff,0xff,0xf7,0xff,0xff,0xff,0xff,0xff,0xff,0xff,0xff,0xff,0xff,0xff,0xfb,0x90,0x1e,0xfb,0x59,0x0e,0x30,0x29,0x5a,0x9d,0xdf,0xa0,0x49,0xce,0xaa,0x09,0x18},
}

func c05be64(b []byte) uint64 {
	return uint64(b[0])<<56 | uint64(b[1])<<48 | uint64(b[2])<<40 | uint64(b[3])<<32 | uint64(b[4])<<24 | uint64(b[5])<<16 | uint64(b[6])<<8 | uint64(b[7])
}

func c05put64(out []byte, w uint64) []byte {
	return append(out, byte(w>>56), byte(w>>48), byte(w>>40), byte(w>>32), byte(w>>24), byte(w>>16), byte(w>>8), byte(w))
}

func c05Raw(x, y *p256Element) []byte {
	out := make([]byte, 0, 40)
	out = c05put64(out, y[0])
	out = c05put64(out, x[3])
	out = c05put64(out, x[2])
	out = c05put64(out, x[1])
	out = c05put64(out, x[0])
	return out
}

var c05Zero40 [40]byte

// c05Val: the integer a (x, y) pair stands for, pending negation applied.
func c05Val(x, y *p256Element) []byte {
	raw := c05Raw(x, y)
	neg := verifWideSub(c05Zero40[:], raw)
	return verifIteBytes(y[1]&1 == 1, neg, raw)
}

func c05Set(x, y *p256Element, v []byte) {
	y[0], y[1], y[3] = c05be64(v[0:8]), 0, 0
	x[3], x[2], x[1], x[0] = c05be64(v[8:16]), c05be64(v[16:24]), c05be64(v[24:32]), c05be64(v[32:40])
	hi := y[0]
	c05RangeBad = verifAny(c05RangeBad, hi+4 >= 8)
}

// c05MultN: v is a multiple of the group order (exact for |v| < 2^259).
func c05MultN(v []byte) bool {
	var cs [17]bool
	for i := range c05KN {
		cs[i] = verifWideEq(v, c05KN[i][:])
	}
	return verifAny(cs[:]...)
}

func c05ElemZero(e *p256Element) bool { return e[0]|e[1]|e[2]|e[3] == 0 }

// c05AddVals: the addition kernel contract on two operands given by value.  bad: an operand was not a
// valid finite point.  An undefined result (bad operand, or both operands the same point) is POISONED:
// the poison limb travels with the point through moves and further operations.
func c05AddVals(v1, v2 []byte, bad bool) (sum []byte, z uint64, poison uint64, equal bool) {
	bad = verifAny(bad, c05MultN(v1), c05MultN(v2))
	sum = verifWideAdd(v1, v2)
	equal = c05MultN(verifWideSub(v1, v2))
	opp := c05MultN(sum)
	z = verifIteU64(opp, 0, 1)
	poison = verifIteU64(verifAny(bad, equal), 1, 0)
	return
}

func verifModel_p256PointAddAsm(res, in1, in2 *SM2P256Point) int {
	v1, v2 := c05Val(&in1.x, &in1.y), c05Val(&in2.x, &in2.y)
	bad := verifAny(c05ElemZero(&in1.z), c05ElemZero(&in2.z))
	p := in1.y[2] | in2.y[2]
	out, z, poison, equal := c05AddVals(v1, v2, bad)
	c05Set(&res.x, &res.y, out)
	res.y[2] = p | poison
	res.z = p256Element{z, 0, 0, 0}
	return verifIteInt(bad, int(verifU8("undefined_ret")&1), verifIteInt(equal, 1, 0))
}

func c05Double(res, in *SM2P256Point) {
	v := c05Val(&in.x, &in.y)
	inf := c05ElemZero(&in.z)
	invalid := verifAll(!inf, c05MultN(v))
	p := in.y[2]
	c05Set(&res.x, &res.y, verifWideAdd(v, v))
	res.y[2] = p | verifIteU64(invalid, 1, 0)
	res.z = p256Element{verifIteU64(inf, 0, 1), 0, 0, 0}
}

func verifModel_p256PointDoubleAsm(res, in *SM2P256Point) { c05Double(res, in) }

func verifModel_p256PointDouble6TimesAsm(res, in *SM2P256Point) {
	c05Double(res, in)
	for i := 0; i < 5; i++ {
		c05Double(res, res)
	}
}

func verifModel_p256MovCond(res, a, b *SM2P256Point, cond int) {
	c := cond != 0
	for i := 0; i < 4; i++ {
		res.x[i] = verifIteU64(c, a.x[i], b.x[i])
		res.y[i] = verifIteU64(c, a.y[i], b.y[i])
		res.z[i] = verifIteU64(c, a.z[i], b.z[i])
	}
}

func verifModel_p256NegCond(val *p256Element, cond int) {
	if c05FieldMode {
		n := verifUF("fneg", 32, c05ElemBytes(val))
		var e p256Element
		c05SetElem(&e, n)
		for i := 0; i < 4; i++ {
			val[i] = verifIteU64(cond != 0, e[i], val[i])
		}
		return
	}
	val[1] ^= verifIteU64(cond != 0, 1, 0)
}

func verifModel_p256Select(res *SM2P256Point, table *p256Table, idx, limit int) {
	var r SM2P256Point
	for i := 0; i < len(table) && i < limit; i++ {
		c := idx == i+1
		for j := 0; j < 4; j++ {
			r.x[j] = verifIteU64(c, table[i].x[j], r.x[j])
			r.y[j] = verifIteU64(c, table[i].y[j], r.y[j])
			r.z[j] = verifIteU64(c, table[i].z[j], r.z[j])
		}
	}
	*res = r
}

func verifModel_p256SelectAffine(res *p256AffinePoint, table *p256AffineTable, idx int) {
	var r p256AffinePoint
	for i := 0; i < len(table); i++ {
		c := idx == i+1
		for j := 0; j < 4; j++ {
			r.x[j] = verifIteU64(c, table[i].x[j], r.x[j])
			r.y[j] = verifIteU64(c, table[i].y[j], r.y[j])
		}
	}
	*res = r
}

// If sign is not 0 the affine operand is negated; res = in1 + in2; if sel is 0, res = in1; if zero is
// 0, res = in2 (applied last, as in the assembly).
func verifModel_p256PointAddAffineAsm(res, in1 *SM2P256Point, in2 *p256AffinePoint, sign, sel, zero int) {
	t := *in2
	t.y[1] ^= verifIteU64(sign != 0, 1, 0)
	v1, v2 := c05Val(&in1.x, &in1.y), c05Val(&t.x, &t.y)
	out, z, poison, _ := c05AddVals(v1, v2, c05ElemZero(&in1.z))
	var sum, second, first SM2P256Point
	c05Set(&sum.x, &sum.y, out)
	sum.y[2] = in1.y[2] | t.y[2] | poison
	sum.z = p256Element{z, 0, 0, 0}
	c05Set(&second.x, &second.y, v2)
	second.y[2] = t.y[2]
	second.z = p256Element{1, 0, 0, 0}
	c05Set(&first.x, &first.y, v1) // in1, value in normal form (the same point)
	first.y[2] = in1.y[2]
	first.z = in1.z
	for i := 0; i < 4; i++ {
		res.x[i] = verifIteU64(zero == 0, second.x[i], verifIteU64(sel == 0, first.x[i], sum.x[i]))
		res.y[i] = verifIteU64(zero == 0, second.y[i], verifIteU64(sel == 0, first.y[i], sum.y[i]))
		res.z[i] = verifIteU64(zero == 0, second.z[i], verifIteU64(sel == 0, first.z[i], sum.z[i]))
	}
}

var c05N = p256OrdElement{0x53bbf40939d54123, 0x7203df6b21c6052b, 0xffffffffffffffff, 0xfffffffeffffffff}

// single conditional subtraction of the group order (the input is below 2^256 < 2n)
func verifModel_p256OrdReduce(s *p256OrdElement) {
	var d p256OrdElement
	var b uint64
	for i := 0; i < 4; i++ {
		x, y := s[i], c05N[i]
		di := x - y - b
		b = ((^x & y) | (^(x ^ y) & di)) >> 63
		d[i] = di
	}
	for i := 0; i < 4; i++ {
		s[i] = verifIteU64(b == 0, d[i], s[i])
	}
}

func verifModel_p256OrdBigToLittle(res *p256OrdElement, in *[32]byte) {
	for i := 0; i < 4; i++ {
		res[i] = c05be64(in[24-8*i : 32-8*i])
	}
}

func verifModel_p256OrdLittleToBig(res *[32]byte, in *p256OrdElement) {
	out := make([]byte, 0, 32)
	for i := 3; i >= 0; i-- {
		out = c05put64(out, in[i])
	}
	copy(res[:], out)
}

func verifModel_p256BigToLittle(res *p256Element, in *[32]byte) {
	for i := 0; i < 4; i++ {
		res[i] = c05be64(in[24-8*i : 32-8*i])
	}
}

func verifModel_p256LittleToBig(res *[32]byte, in *p256Element) {
	out := make([]byte, 0, 32)
	for i := 3; i >= 0; i-- {
		out = c05put64(out, in[i])
	}
	copy(res[:], out)
}

func verifModel_c05_noinit() {}

func c05ElemBytes(e *p256Element) []byte {
	out := make([]byte, 0, 32)
	for i := 3; i >= 0; i-- {
		out = c05put64(out, e[i])
	}
	return out
}

func c05SetElem(e *p256Element, b []byte) {
	for i := 0; i < 4; i++ {
		e[i] = c05be64(b[24-8*i : 32-8*i])
	}
}

// ---- abstract generator tables: entry [i][j] stands for [(j+1) * 2^(6i)]G -------------------------

var c05Tbl [43]p256AffineTable

func c05Setup() {
	c05FieldMode, c05RangeBad = false, false
	verifWordLevel(true)
	for i := 0; i < 43; i++ {
		for j := 0; j < 32; j++ {
			var l [5]uint64
			bit := uint(6 * i)
			limb, off := bit/64, bit%64
			v := uint64(j + 1)
			l[limb] |= v << off
			if off > 58 && limb+1 < 5 {
				l[limb+1] |= v >> (64 - off)
			}
			c05Tbl[i][j].x = p256Element{l[0], l[1], l[2], l[3]}
			c05Tbl[i][j].y = p256Element{l[4], 0, 0, 0}
		}
	}
	p256Precomputed = &c05Tbl
}

// c05CheckMultiple: r stands for [k]Q (k big-endian, any 32 bytes).
func c05CheckMultiple(r *SM2P256Point, k []byte, what string) {
	want := append(make([]byte, 8), k...)
	v := c05Val(&r.x, &r.y)
	inf := c05ElemZero(&r.z)
	zeroMult := c05MultN(want)
	verifAssertSweep(!c05RangeBad, what+": a multiple left the range in which the integer model is exact")
	verifAssertSweep(r.y[2] == 0, what+": an undefined result of the addition kernel (operand at infinity, or equal operands) reaches the output")
	verifAssertSweep(inf == zeroMult, what+": point-at-infinity flag does not match the scalar")
	verifAssertSweep(verifAny(inf, c05MultN(verifWideSub(v, want))), what+": result is not the scalar multiple")
}

// ---- intermediate specification values offered to the chained-lemma sweep ---------------------------
// (hints only: every relation between a code value and a hint is proved by the solver before use)

func c05SpecScalar(k []byte) [4]uint64 {
	var s p256OrdElement
	verifModel_p256OrdBigToLittle(&s, (*[32]byte)(k))
	verifModel_p256OrdReduce(&s)
	return s
}

// base-point multiplication, low to high: after window i the accumulator is the signed value of the low
// 6i+6 bits of the scalar
func c05HintsBase(s [4]uint64) {
	for i := 0; i < 43; i++ {
		nbits := 6*i + 6
		// "no window so far selected anything" is "the low bits are all zero"
		var low uint64
		for j := 0; j < 4; j++ {
			switch {
			case 64*j+64 <= nbits:
				low |= s[j]
			case 64*j < nbits:
				low |= s[j] & (uint64(1)<<uint(nbits-64*j) - 1)
			}
		}
		verifSweepHintBool(low == 0)
		var fill uint64
		if nbits <= 256 {
			fill = 0 - (s[(nbits-1)/64]>>(uint(nbits-1)%64))&1
		}
		for j := 0; j < 5; j++ {
			var w uint64
			if j < 4 {
				w = s[j]
			}
			switch {
			case 64*j+64 <= nbits:
			case 64*j >= nbits:
				w = fill
			default:
				mask := uint64(1)<<uint(nbits-64*j) - 1
				w = (w & mask) | (fill &^ mask)
			}
			verifSweepHint64(w)
		}
	}
}

// variable-point multiplication, high to low: after the window at bit index idx the accumulator is
// floor(s / 2^idx) + bit(idx-1)
func c05HintsVar(s [4]uint64) {
	for idx := 251; idx >= 5; idx -= 6 {
		q, r := idx/64, uint(idx%64)
		var sh [5]uint64
		for j := 0; j+q < 4; j++ {
			sh[j] = s[j+q] >> r
			if j+q+1 < 4 {
				sh[j] |= s[j+q+1] << (64 - r)
			}
		}
		bit := (s[(idx-1)/64] >> (uint(idx-1) % 64)) & 1
		a := make([]byte, 0, 40)
		for j := 4; j >= 0; j-- {
			a = c05put64(a, sh[j])
		}
		b := make([]byte, 40)
		b[39] = byte(bit)
		v := verifWideAdd(a, b)
		for j := 0; j < 5; j++ {
			verifSweepHint64(c05be64(v[8*j : 8*j+8]))
		}
	}
}

// ---- native reference: affine big-integer arithmetic on y^2 = x^3 - 3x + b ------------------------

var c05P, _ = new(big.Int).SetString("FFFFFFFEFFFFFFFFFFFFFFFFFFFFFFFFFFFFFFFF00000000FFFFFFFFFFFFFFFF", 16)
var c05Nb, _ = new(big.Int).SetString("FFFFFFFEFFFFFFFFFFFFFFFFFFFFFFFF7203DF6B21C6052B53BBF40939D54123", 16)
var c05Gx, _ = new(big.Int).SetString("32C4AE2C1F1981195F9904466A39C9948FE30BBFF2660BE1715A4589334C74C7", 16)
var c05Gy, _ = new(big.Int).SetString("BC3736A2F4F6779C59BDCEE36B692153D0A9877CC62A474002DF32E52139F0A0", 16)

type c05Aff struct {
	x, y *big.Int
	inf  bool
}

func c05RefAdd(a, b c05Aff) c05Aff {
	if a.inf {
		return b
	}
	if b.inf {
		return a
	}
	p := c05P
	var lam *big.Int
	if a.x.Cmp(b.x) == 0 {
		if new(big.Int).Mod(new(big.Int).Add(a.y, b.y), p).Sign() == 0 {
			return c05Aff{inf: true}
		}
		num := new(big.Int).Mul(a.x, a.x)
		num.Mul(num, big.NewInt(3)).Sub(num, big.NewInt(3))
		den := new(big.Int).ModInverse(new(big.Int).Mod(new(big.Int).Lsh(a.y, 1), p), p)
		lam = num.Mul(num, den)
	} else {
		num := new(big.Int).Sub(b.y, a.y)
		den := new(big.Int).ModInverse(new(big.Int).Mod(new(big.Int).Sub(b.x, a.x), p), p)
		lam = num.Mul(num, den)
	}
	lam.Mod(lam, p)
	x := new(big.Int).Mul(lam, lam)
	x.Sub(x, a.x).Sub(x, b.x).Mod(x, p)
	y := new(big.Int).Sub(a.x, x)
	y.Mul(y, lam).Sub(y, a.y).Mod(y, p)
	return c05Aff{x: x, y: y}
}

func c05RefMult(q c05Aff, k []byte) c05Aff {
	r := c05Aff{inf: true}
	for _, b := range k {
		for bit := 7; bit >= 0; bit-- {
			r = c05RefAdd(r, r)
			if b>>uint(bit)&1 == 1 {
				r = c05RefAdd(r, q)
			}
		}
	}
	return r
}

func c05RefBytes(a c05Aff) []byte {
	if a.inf {
		return []byte{0}
	}
	out := make([]byte, 65)
	out[0] = 4
	a.x.FillBytes(out[1:33])
	a.y.FillBytes(out[33:65])
	return out
}

// native twin of the scalar-multiplication harnesses: the real kernels against the affine reference
func c05NativeMult(k, q []byte, base bool) {
	g := c05Aff{x: c05Gx, y: c05Gy}
	qa := g
	var r *SM2P256Point
	var err error
	if base {
		r, err = new(SM2P256Point).ScalarBaseMult(k)
	} else {
		qa = c05RefMult(g, q)
		if qa.inf {
			return
		}
		qp, e := new(SM2P256Point).SetBytes(c05RefBytes(qa))
		verifAssert(e == nil, "SetBytes rejects a point computed by the reference")
		r, err = new(SM2P256Point).ScalarMult(qp, k)
	}
	verifAssert(err == nil, "scalar multiplication: error on a 32-byte scalar")
	verifAssert(verifEqBytes(r.Bytes(), c05RefBytes(c05RefMult(qa, k))), "scalar multiplication differs from affine big-integer arithmetic")
}

// ---- harnesses -----------------------------------------------------------------------------------

// Booth recoding: (sign ? -d : d) = (in >> 1) + (in & 1) - 2^w * (in >> w) for every window value.
func verifH_c05_booth() {
	w := verifParam("w")
	in := uint(verifU8("in"))
	var d, s int
	if w == 6 {
		verifAssume(in < 128)
		d, s = boothW6(in)
	} else {
		verifAssume(in < 64)
		d, s = boothW5(in)
	}
	want := int(in>>1) + int(in&1) - int(in>>uint(w))<<uint(w)
	verifAssert(verifAny(s == 0, s == 1), "booth: sign is not a bit")
	verifAssert(verifAll(d >= 0, d <= 1<<uint(w-1)), "booth: digit out of table range")
	got := verifIteInt(s == 1, -d, d)
	verifAssert(got == want, "booth: recoded digit differs from the signed-window value")
	verifReach("end")
}

func verifH_c05_basemult() {
	k := verifBytes("k", 32)
	if !verifSymbolic() {
		c05NativeMult(k, nil, true)
		verifReach("end")
		return
	}
	c05Setup()
	c05HintsBase(c05SpecScalar(k))
	r, err := new(SM2P256Point).ScalarBaseMult(k)
	verifAssert(err == nil, "ScalarBaseMult: error on a 32-byte scalar")
	c05CheckMultiple(r, k, "ScalarBaseMult")
	verifReach("end")
}

func verifH_c05_scalarmult() {
	k := verifBytes("k", 32)
	if !verifSymbolic() {
		c05NativeMult(k, verifBytes("q", 32), false)
		verifReach("end")
		return
	}
	c05Setup()
	var q SM2P256Point
	q.x = p256Element{1, 0, 0, 0}
	q.z = p256Element{1, 0, 0, 0}
	c05HintsVar(c05SpecScalar(k))
	r, err := new(SM2P256Point).ScalarMult(&q, k)
	verifAssert(err == nil, "ScalarMult: error on a 32-byte scalar")
	c05CheckMultiple(r, k, "ScalarMult")
	verifReach("end")
}

// ---- field mode: decoders and the Go-level field/scalar helpers ---------------------------------------
// Field multiplication, squaring and the conversion out of the Montgomery domain are uninterpreted
// functions of the operand limbs (assembly, outside); range checks, additions, byte handling and the
// control flow of the decoders are the real Go code.

func verifModel_p256Mul(res, in1, in2 *p256Element) {
	c05SetElem(res, verifUF("fmul", 32, c05ElemBytes(in1), c05ElemBytes(in2)))
}

func verifModel_p256Sqr(res, in *p256Element, n int) {
	v := c05ElemBytes(in)
	for i := 0; i < n; i++ {
		v = verifUF("fmul", 32, v, v)
	}
	c05SetElem(res, v)
}

func verifModel_p256FromMont(res, in *p256Element) {
	c05SetElem(res, verifUF("ffrommont", 32, c05ElemBytes(in)))
}

var c05PBytes = []byte{0xFF, 0xFF, 0xFF, 0xFE, 0xFF, 0xFF, 0xFF, 0xFF, 0xFF, 0xFF, 0xFF, 0xFF, 0xFF, 0xFF, 0xFF, 0xFF,
	0xFF, 0xFF, 0xFF, 0xFF, 0x00, 0x00, 0x00, 0x00, 0xFF, 0xFF, 0xFF, 0xFF, 0xFF, 0xFF, 0xFF, 0xFF}
var c05NBytes = []byte{0xFF, 0xFF, 0xFF, 0xFE, 0xFF, 0xFF, 0xFF, 0xFF, 0xFF, 0xFF, 0xFF, 0xFF, 0xFF, 0xFF, 0xFF, 0xFF,
	0x72, 0x03, 0xDF, 0x6B, 0x21, 0xC6, 0x05, 0x2B, 0x53, 0xBB, 0xF4, 0x09, 0x39, 0xD5, 0x41, 0x23}

func c05WideLess(a, b []byte) bool {
	d := verifWideSub(append([]byte{0}, a...), append([]byte{0}, b...))
	return d[0] != 0
}

// SetBytes on every byte string of length n: a point comes back only for the documented forms with every
// coordinate below p (out-of-range coordinates are rejected); other lengths and tags are refused.
func verifH_c05_decode() {
	n := verifParam("n")
	b := verifBytes("enc", n)
	keep := append([]byte(nil), b...)
	if !verifSymbolic() {
		// native instance finder: the encoding of a real point with p added to a coordinate where it fits
		c05NativeDecode(n, keep)
		verifReach("end")
		return
	}
	c05FieldMode = true
	p, err := new(SM2P256Point).SetBytes(b)
	verifAssert(verifEqBytes(b, keep), "the input is not modified")
	if err == nil {
		verifAssert(p != nil, "a point comes back")
		switch n {
		case 1:
			verifAssert(keep[0] == 0, "a single byte decodes only as the point at infinity")
		case 33:
			verifAssert(verifAny(keep[0] == 2, keep[0] == 3), "33 bytes decode only with tag 02/03")
			verifAssert(c05WideLess(keep[1:33], c05PBytes), "compressed form: an abscissa of p or above is rejected")
		case 65:
			verifAssert(keep[0] == 4, "65 bytes decode only with tag 04")
			verifAssert(c05WideLess(keep[1:33], c05PBytes), "uncompressed form: an abscissa of p or above is rejected")
			verifAssert(c05WideLess(keep[33:65], c05PBytes), "uncompressed form: an ordinate of p or above is rejected")
		default:
			verifAssert(false, "only 1-, 33- and 65-byte strings decode")
		}
		verifReach("accepted")
	}
	verifReach("end")
}

func c05NativeDecode(n int, seed []byte) {
	if n != 33 && n != 65 {
		_, err := new(SM2P256Point).SetBytes(seed)
		verifAssert(err != nil || (n == 1 && seed[0] == 0), "only 1-, 33- and 65-byte strings decode")
		return
	}
	// small multiples of G have no structure in their coordinates; points with a small coordinate are
	// found by solving the curve equation for x = 0..: take y from the square root where it exists
	k := make([]byte, 32)
	copy(k, seed[1:])
	g := c05Aff{x: c05Gx, y: c05Gy}
	pt := c05RefMult(g, k)
	if pt.inf {
		return
	}
	enc := c05RefBytes(pt)
	q, err := new(SM2P256Point).SetBytes(enc)
	verifAssert(err == nil && verifEqBytes(q.Bytes(), enc), "a canonical encoding decodes and re-encodes to itself")
	// x + p and y + p where they still fit into 32 bytes
	for _, off := range []int{1, 33} {
		v := new(big.Int).SetBytes(enc[off : off+32])
		v.Add(v, c05P)
		if v.BitLen() > 256 {
			continue
		}
		bad := append([]byte(nil), enc...)
		v.FillBytes(bad[off : off+32])
		_, err := new(SM2P256Point).SetBytes(bad)
		verifAssert(err != nil, "a coordinate of p or above is rejected")
	}
	// a curve point with a tiny ordinate (found by root finding on the cubic): y + p must be rejected
	for y0 := int64(1) + int64(seed[2]%8); y0 < 40; y0++ {
		x, ok := c05SmallYPoint(y0)
		if !ok {
			continue
		}
		enc := make([]byte, 65)
		enc[0] = 4
		x.FillBytes(enc[1:33])
		big.NewInt(y0).FillBytes(enc[33:])
		_, err := new(SM2P256Point).SetBytes(enc)
		verifAssert(err == nil, "a curve point with a tiny ordinate decodes")
		new(big.Int).Add(big.NewInt(y0), c05P).FillBytes(enc[33:])
		_, err = new(SM2P256Point).SetBytes(enc)
		verifAssert(err != nil, "y + p is rejected (uncompressed)")
		break
	}
	// a curve point with a tiny abscissa: y0 in 1..40 with x from the cubic is not available in closed
	// form; tiny abscissa instead: x0 = seed-dependent small value, y = sqrt(x0^3 - 3 x0 + b)
	x0 := big.NewInt(int64(seed[0]) % 41)
	rhs := new(big.Int).Exp(x0, big.NewInt(3), c05P)
	rhs.Sub(rhs, new(big.Int).Mul(big.NewInt(3), x0))
	rhs.Add(rhs, c05B).Mod(rhs, c05P)
	y0 := new(big.Int).ModSqrt(rhs, c05P)
	if y0 != nil {
		enc := make([]byte, 65)
		enc[0] = 4
		x0.FillBytes(enc[1:33])
		y0.FillBytes(enc[33:])
		_, err := new(SM2P256Point).SetBytes(enc)
		verifAssert(err == nil, "a curve point with a tiny abscissa decodes")
		bad := append([]byte(nil), enc...)
		new(big.Int).Add(x0, c05P).FillBytes(bad[1:33])
		_, err = new(SM2P256Point).SetBytes(bad)
		verifAssert(err != nil, "x + p is rejected (uncompressed)")
		cmp := make([]byte, 33)
		cmp[0] = 2 | byte(y0.Bit(0))
		new(big.Int).Add(x0, c05P).FillBytes(cmp[1:])
		_, err = new(SM2P256Point).SetBytes(cmp)
		verifAssert(err != nil, "x + p is rejected (compressed)")
	}
}

var c05B, _ = new(big.Int).SetString("28E9FA9E9D9F5E344D5A9E4BCF6509A7F39789F515AB8F92DDBCBD414D940E93", 16)

// p256OrdAdd = (x + y) mod n, p256Add = (x + y) mod p for all reduced operands; p256LessThanP = (x < p)
func verifH_c05_addlemma() {
	which := verifParam("which")
	x, y := verifBytes("x", 32), verifBytes("y", 32)
	mb := c05NBytes
	if which == 1 {
		mb = c05PBytes
	}
	verifAssume(verifAll(c05WideLess(x, mb), c05WideLess(y, mb)))
	x33, y33, m33 := append([]byte{0}, x...), append([]byte{0}, y...), append([]byte{0}, mb...)
	s := verifWideAdd(x33, y33)
	d := verifWideSub(s, m33)
	want := verifIteBytes(d[0] != 0, s, d)[1:]
	var ex, ey, res p256Element
	c05SetElem(&ex, x)
	c05SetElem(&ey, y)
	if which == 0 {
		p256OrdAdd((*[4]uint64)(&res), (*[4]uint64)(&ex), (*[4]uint64)(&ey))
		verifAssert(verifEqBytes(c05ElemBytes(&res), want), "p256OrdAdd = (x + y) mod n for all x, y below n")
	} else {
		p256Add(&res, &ex, &ey)
		verifAssert(verifEqBytes(c05ElemBytes(&res), want), "p256Add = (x + y) mod p for all x, y below p")
		z := verifBytes("z", 32)
		var ez p256Element
		c05SetElem(&ez, z)
		verifAssert((p256LessThanP(&ez) == 1) == c05WideLess(z, c05PBytes), "p256LessThanP(x) = 1 exactly if x < p")
	}
	verifReach("end")
}

// ---- native instance finder: a curve point with a tiny ordinate (so that y + p still fits 32 bytes) ------
// roots of f(x) = x^3 - 3x + (b - y0^2) over F_p via gcd(x^p - x, f); polynomials of degree <= 2 as [3]*big.Int

type c05Poly [3]*big.Int

func c05PolyMul(a, b c05Poly, c *big.Int) c05Poly {
	p := c05P
	var t [5]*big.Int
	for i := range t {
		t[i] = new(big.Int)
	}
	for i := 0; i < 3; i++ {
		for j := 0; j < 3; j++ {
			t[i+j].Add(t[i+j], new(big.Int).Mul(a[i], b[j]))
		}
	}
	// x^3 = 3x - c, x^4 = 3x^2 - c x
	for k := 4; k >= 3; k-- {
		t[k].Mod(t[k], p)
		t[k-2].Add(t[k-2], new(big.Int).Mul(t[k], big.NewInt(3)))
		t[k-3].Sub(t[k-3], new(big.Int).Mul(t[k], c))
	}
	var r c05Poly
	for i := 0; i < 3; i++ {
		r[i] = t[i].Mod(t[i], p)
	}
	return r
}

// c05SmallYPoint returns x with (x, y0) on the curve when the cubic has exactly one root in F_p.
func c05SmallYPoint(y0 int64) (*big.Int, bool) {
	p := c05P
	c := new(big.Int).Sub(c05B, big.NewInt(y0*y0))
	c.Mod(c, p)
	one := func() c05Poly { return c05Poly{big.NewInt(1), big.NewInt(0), big.NewInt(0)} }
	h := one()
	base := c05Poly{big.NewInt(0), big.NewInt(1), big.NewInt(0)}
	for i := p.BitLen() - 1; i >= 0; i-- {
		h = c05PolyMul(h, h, c)
		if p.Bit(i) == 1 {
			h = c05PolyMul(h, base, c)
		}
	}
	// g = h - x (degree <= 2); gcd(f, g)
	h[1].Sub(h[1], big.NewInt(1)).Mod(h[1], p)
	// f mod g by hand for deg g = 2, then continue Euclid on degrees <= 2
	f := []*big.Int{c, new(big.Int).Mod(big.NewInt(-3), p), big.NewInt(0), big.NewInt(1)}
	g := []*big.Int{h[0], h[1], h[2]}
	trim := func(q []*big.Int) []*big.Int {
		for len(q) > 0 && q[len(q)-1].Sign() == 0 {
			q = q[:len(q)-1]
		}
		return q
	}
	g = trim(g)
	for len(g) > 0 {
		// f = f mod g
		inv := new(big.Int).ModInverse(g[len(g)-1], p)
		for len(f) >= len(g) {
			k := new(big.Int).Mul(f[len(f)-1], inv)
			k.Mod(k, p)
			sh := len(f) - len(g)
			for i := range g {
				f[sh+i] = new(big.Int).Mod(new(big.Int).Sub(f[sh+i], new(big.Int).Mul(k, g[i])), p)
			}
			f = trim(f)
			if len(f) == 0 {
				break
			}
		}
		f, g = g, f
	}
	if len(f) != 2 {
		return nil, false // no root, or more than one (not split further)
	}
	// root of f0 + f1 x
	x := new(big.Int).Mul(new(big.Int).Neg(f[0]), new(big.Int).ModInverse(f[1], p))
	return x.Mod(x, p), true
}
