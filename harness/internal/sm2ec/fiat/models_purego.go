package fiat

// Abstract field model (purego configuration): field elements are kept in the plain domain, so the
// Montgomery conversions are the identity and multiplication/squaring/inversion are uninterpreted
// functions of the operand limbs.  Range checks, byte (de)serialisation, additions and selects are the
// real fiat code.  (Arithmetic correctness of the field is outside every claim that uses this model.)

func verifModel_sm2p256ToMontgomery(out1 *sm2p256MontgomeryDomainFieldElement, arg1 *sm2p256NonMontgomeryDomainFieldElement) {
	out1[0], out1[1], out1[2], out1[3] = arg1[0], arg1[1], arg1[2], arg1[3]
}

func verifModel_sm2p256FromMontgomery(out1 *sm2p256NonMontgomeryDomainFieldElement, arg1 *sm2p256MontgomeryDomainFieldElement) {
	out1[0], out1[1], out1[2], out1[3] = arg1[0], arg1[1], arg1[2], arg1[3]
}

func verifLimbBytes(x *[4]uint64) []byte {
	out := make([]byte, 0, 32)
	for i := 3; i >= 0; i-- {
		w := x[i]
		out = append(out, byte(w>>56), byte(w>>48), byte(w>>40), byte(w>>32), byte(w>>24), byte(w>>16), byte(w>>8), byte(w))
	}
	return out
}

func verifSetLimbs(x *[4]uint64, b []byte) {
	for i := 0; i < 4; i++ {
		o := 8 * (3 - i)
		x[i] = uint64(b[o])<<56 | uint64(b[o+1])<<48 | uint64(b[o+2])<<40 | uint64(b[o+3])<<32 | uint64(b[o+4])<<24 | uint64(b[o+5])<<16 | uint64(b[o+6])<<8 | uint64(b[o+7])
	}
}

func verifModel_sm2p256Mul(out1 *sm2p256MontgomeryDomainFieldElement, arg1 *sm2p256MontgomeryDomainFieldElement, arg2 *sm2p256MontgomeryDomainFieldElement) {
	a, b := (*[4]uint64)(arg1), (*[4]uint64)(arg2)
	verifSetLimbs((*[4]uint64)(out1), verifUF("fp.mul", 32, verifLimbBytes(a), verifLimbBytes(b)))
}

func verifModel_sm2p256Square(out1 *sm2p256MontgomeryDomainFieldElement, arg1 *sm2p256MontgomeryDomainFieldElement) {
	a := (*[4]uint64)(arg1)
	verifSetLimbs((*[4]uint64)(out1), verifUF("fp.mul", 32, verifLimbBytes(a), verifLimbBytes(a)))
}

// plain-domain one
func verifModel_sm2p256SetOne(out1 *sm2p256MontgomeryDomainFieldElement) {
	out1[0], out1[1], out1[2], out1[3] = 1, 0, 0, 0
}
