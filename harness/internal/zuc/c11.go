package zuc

// C11 harnesses.  The ZUC keystream generator is abstracted (KS): a zucState32 is (stream identity,
// word counter) and genKeyword returns KS(identity, counter) and advances the counter; the seekable
// cipher's buffering/bucket logic and the MACs' bit accumulation are the real code.  Natively (replay)
// the real generator runs and the reference regenerates the real keystream from the initial state.

// symbolic representation: lfsr = identity (never changes), r1 = word counter
func verifModel_genKeyword(s *zucState32) uint32 {
	z := c11KS(s, int(s.r1))
	s.r1++
	return z
}

var c11Init *zucState32 // native: initial state of the stream under test

// c11KS: keystream word number i of the stream identified by st
func c11KS(st *zucState32, i int) uint32 {
	if verifSymbolic() {
		id := make([]byte, 0, 64)
		for _, w := range st.lfsr {
			id = append(id, byte(w>>24), byte(w>>16), byte(w>>8), byte(w))
		}
		r := verifUF("KS", 4, id, []byte{byte(i >> 24), byte(i >> 16), byte(i >> 8), byte(i)})
		return uint32(r[0])<<24 | uint32(r[1])<<16 | uint32(r[2])<<8 | uint32(r[3])
	}
	s := *c11Init
	var z uint32
	for k := 0; k <= i; k++ {
		z = genKeyword(&s)
	}
	return z
}

func c11KSByte(st *zucState32, pos int) byte {
	return byte(c11KS(st, pos/4) >> (24 - 8*uint(pos%4)))
}

// c11StateAt: generator state after `words` keystream words
func c11StateAt(id *zucState32, words int) zucState32 {
	if verifSymbolic() {
		s := *id
		s.r1 = uint32(words)
		return s
	}
	s := *c11Init
	for k := 0; k < words; k++ {
		genKeyword(&s)
	}
	return s
}

// c11Stream: a fresh stream: symbolic identity / natively a real state from a replayed key and IV
func c11Stream(zuc256 bool, tagSize int) *zucState32 {
	if verifSymbolic() {
		s := &zucState32{}
		for i := range s.lfsr {
			s.lfsr[i] = verifU32("id")
		}
		return s
	}
	kl, il := 16, 16
	if zuc256 {
		kl, il = 32, 23
	}
	key, iv := verifBytes("key", kl), verifBytes("iv", il)
	var s *zucState32
	if zuc256 && tagSize > 0 {
		m, _ := NewHash256(key, iv, tagSize)
		st := m.initState
		s = &st
	} else {
		s, _ = newZUCState(key, iv)
	}
	c11Init = s
	return s
}

func c11SameState(a, b *zucState32) bool {
	if verifSymbolic() {
		return a.r1 == b.r1 && a.lfsr == b.lfsr
	}
	return a.r1 == b.r1 && a.r2 == b.r2 && a.lfsr == b.lfsr
}

// ---------- seekable cipher: one operation from an arbitrary state satisfying the invariant ----------
//
//	G = used + xLen is a multiple of 128 (xLen = 0 iff used is), generator is at word G/4,
//	x[i] = KSbyte(used+i) for i < xLen, states[j] is the generator at byte j*bucket (only states[0]
//	without buckets), bucket*len(states) > G.
func verifH_c11_eea_step() {
	bucket, used, nst := verifParam("bucket"), verifParam("used"), verifParam("nstates")
	op, off, n := verifParam("op"), verifParam("off"), verifParam("n")
	id := c11Stream(false, 0)
	xLen := (128 - used%128) % 128
	g := used + xLen
	c := new(eea)
	c.zucState32 = c11StateAt(id, g/4)
	c.bucketSize = bucket
	c.used = uint64(used)
	c.xLen = xLen
	copy(c.x[:], verifBytes("stale", 128))
	for i := 0; i < xLen; i++ {
		c.x[i] = c11KSByte(id, used+i)
	}
	for j := 0; j < nst; j++ {
		s := c11StateAt(id, j*bucket/4)
		c.states = append(c.states, &s)
	}
	verifAssume(bucket == 0 && nst == 1 || bucket > 0 && bucket*nst > g)
	src := verifBytes("src", n)
	keep := append([]byte(nil), src...)
	canary := verifBytes("canary", 2)
	buf := append(verifBytes("junk", n), canary...)
	pos := used
	if op == 1 {
		pos = off
		c.XORKeyStreamAt(buf, src, uint64(off))
	} else {
		c.XORKeyStream(buf, src)
	}
	want := make([]byte, n)
	for i := range want {
		want[i] = keep[i] ^ c11KSByte(id, pos+i)
	}
	verifAssert(verifEqBytes(buf[:n], want), "dst[i] = src[i] xor keystream byte at the absolute position")
	verifAssert(verifEqBytes(buf[n:], canary) && verifEqBytes(src, keep), "nothing else is written")
	// invariant re-established
	nu := pos + n
	nx := (128 - nu%128) % 128
	verifAssert(c.used == uint64(nu) && c.xLen == nx, "position and buffered byte count")
	st := c11StateAt(id, (nu+nx)/4)
	verifAssert(c11SameState(&c.zucState32, &st), "generator is at the end of the current 128-byte round")
	for i := 0; i < nx; i++ {
		verifAssert(c.x[i] == c11KSByte(id, nu+i), "buffered keystream bytes")
	}
	verifAssert(len(c.states) >= nst, "checkpoints are never dropped")
	if bucket > 0 {
		verifAssert(bucket*len(c.states) > nu+nx, "a checkpoint exists for every bucket reached")
	} else {
		verifAssert(len(c.states) == 1, "no checkpoints without buckets")
	}
	for j := range c.states {
		sj := c11StateAt(id, j*bucket/4)
		verifAssert(c11SameState(c.states[j], &sj), "checkpoint j is the generator at byte j*bucket")
	}
	verifReach("end")
}

// constructors: bucket size is rounded up to whole rounds, the invariant holds initially, key/IV sizes
func verifH_c11_eea_new() {
	kl, il, bucket := verifParam("keylen"), verifParam("ivlen"), verifParam("bucket")
	key, iv := verifBytes("key", kl), verifBytes("iv", il)
	c, err := NewCipherWithBucketSize(key, iv, bucket)
	ok := kl == 16 && il == 16 || kl == 32 && il == 23
	verifAssert((err == nil) == ok, "exactly ZUC-128 (16,16) and ZUC-256 (32,23) key/IV sizes are accepted")
	if err == nil {
		wantB := 0
		if bucket > 0 {
			wantB = (bucket + 127) / 128 * 128
		}
		verifAssert(c.bucketSize == wantB && c.used == 0 && c.xLen == 0 && len(c.states) == 1, "initial state")
		verifAssert(c11SameState(c.states[0], &c.zucState32), "checkpoint 0 is the initial generator state")
	}
	verifReach("end")
}

// ---------- MACs ----------

// bit i of the keystream (0 = most significant bit of word 0)
func c11Window32(st *zucState32, bit int) uint32 {
	w0, w1 := c11KS(st, bit/32), c11KS(st, bit/32+1)
	s := uint(bit % 32)
	if s == 0 {
		return w0
	}
	return w0<<s | w1>>(32-s)
}

func c11MsgBit(m []byte, i int) bool { return (m[i/8]>>(7-uint(i%8)))&1 == 1 }

// 128-EIA3 (ETSI/SAGE EEA3/EIA3 spec 3.4 / GM/T 0001.3): T = xor of z[i..i+31] over the set bits,
// xor z[LENGTH..] xor z[32(L-1)..], L = ceil(LENGTH/32)+2
func c11EIASpec(st *zucState32, m []byte, nbits int) uint32 {
	var t uint32
	for i := 0; i < nbits; i++ {
		t ^= verifIteU32(c11MsgBit(m, i), c11Window32(st, i), 0)
	}
	t ^= c11Window32(st, nbits)
	l := (nbits+31)/32 + 2
	return t ^ c11KS(st, l-1)
}

// ZUC-256 MAC with a t-bit tag: Tag = z[0..t-1]; for set bits Tag ^= z[t+i .. t+i+t-1]; Tag ^= z[t+LENGTH ..]
func c11EIA256Spec(st *zucState32, m []byte, nbits, tagWords int) []uint32 {
	tag := make([]uint32, tagWords)
	for j := range tag {
		tag[j] = c11KS(st, j)
	}
	for i := 0; i <= nbits; i++ {
		for j := range tag {
			w := c11Window32(st, 32*tagWords+i+32*j)
			if i == nbits {
				tag[j] ^= w
			} else {
				tag[j] ^= verifIteU32(c11MsgBit(m, i), w, 0)
			}
		}
	}
	return tag
}

func c11BE(ws []uint32) []byte {
	var out []byte
	for _, w := range ws {
		out = append(out, byte(w>>24), byte(w>>16), byte(w>>8), byte(w))
	}
	return out
}

func c11NewMac(st *zucState32) *ZUC128Mac {
	m := &ZUC128Mac{tagSize: 4}
	m.initState = *st
	m.Reset()
	return m
}

func c11NewMac256(st *zucState32, tagSize int) *ZUC256Mac {
	m := &ZUC256Mac{tagSize: tagSize}
	m.t = make([]uint32, tagSize/4)
	m.initState = *st
	m.Reset()
	return m
}

// message of a+b+c bytes (+ extra bits through Finish) written in three parts with an interleaved Sum,
// on a fresh object (prev=0) or after a previous message of prev bytes ended by Reset (mode 1) / Finish (2)
func verifH_c11_eia() {
	a, b, c, bits := verifParam("a"), verifParam("b"), verifParam("c"), verifParam("bits")
	prev, mode := verifParam("prev"), verifParam("mode")
	st := c11Stream(false, 0)
	h := c11NewMac(st)
	if mode > 0 {
		h.Write(verifBytes("prev", prev))
		if mode == 1 {
			h.Reset()
		} else {
			h.Finish(nil, 0)
		}
	}
	n := a + b + c
	msg := verifBytes("m", n+1)
	n1, e1 := h.Write(msg[:a])
	n2, e2 := h.Write(msg[a : a+b])
	mid := h.Sum([]byte{9})
	n3, e3 := h.Write(msg[a+b : n])
	verifAssert(n1 == a && n2 == b && n3 == c && e1 == nil && e2 == nil && e3 == nil, "Write returns (len, nil)")
	verifAssert(len(mid) == 5 && mid[0] == 9, "Sum appends 4 bytes")
	midT := c11EIASpec(st, msg, 8*(a+b))
	verifAssert(verifEqBytes(mid[1:], c11BE([]uint32{midT})), "interleaved Sum is the 128-EIA3 tag of the prefix and does not disturb the state")
	s2 := h.Sum(nil)
	verifAssert(verifEqBytes(s2, c11BE([]uint32{c11EIASpec(st, msg, 8*n)})), "Sum is the 128-EIA3 tag of the whole bytes")
	var tail []byte
	if bits > 0 {
		tail = msg[n : n+1]
	}
	tag := h.Finish(tail, bits)
	verifAssert(len(tag) == 4 && verifEqBytes(tag, c11BE([]uint32{c11EIASpec(st, msg, 8*n+bits)})), "Finish is the 128-EIA3 tag for the bit length")
	// Finish left the object in its initial state
	verifAssert(verifEqBytes(h.Sum(nil), c11BE([]uint32{c11EIASpec(st, nil, 0)})), "after Finish the object is back in its initial state")
	verifReach("end")
}

func verifH_c11_eia256() {
	a, b, c, bits, ts := verifParam("a"), verifParam("b"), verifParam("c"), verifParam("bits"), verifParam("tagsize")
	prev, mode := verifParam("prev"), verifParam("mode")
	st := c11Stream(true, ts)
	h := c11NewMac256(st, ts)
	if mode > 0 {
		h.Write(verifBytes("prev", prev))
		if mode == 1 {
			h.Reset()
		} else {
			h.Finish(nil, 0)
		}
	}
	n := a + b + c
	msg := verifBytes("m", n+1)
	h.Write(msg[:a])
	h.Write(msg[a : a+b])
	mid := h.Sum(nil)
	h.Write(msg[a+b : n])
	verifAssert(len(mid) == ts && verifEqBytes(mid, c11BE(c11EIA256Spec(st, msg, 8*(a+b), ts/4))), "interleaved Sum is the ZUC-256 MAC of the prefix and does not disturb the state")
	verifAssert(verifEqBytes(h.Sum(nil), c11BE(c11EIA256Spec(st, msg, 8*n, ts/4))), "Sum is the ZUC-256 MAC of the whole bytes")
	var tail []byte
	if bits > 0 {
		tail = msg[n : n+1]
	}
	tag := h.Finish(tail, bits)
	verifAssert(len(tag) == ts && verifEqBytes(tag, c11BE(c11EIA256Spec(st, msg, 8*n+bits, ts/4))), "Finish is the ZUC-256 MAC for the bit length")
	verifAssert(verifEqBytes(h.Sum(nil), c11BE(c11EIA256Spec(st, nil, 0, ts/4))), "after Finish the object is back in its initial state")
	verifReach("end")
}
