package sm3

func c01Tier() {}
