package sm3

// C01 harnesses: the SM3 state machine (Write/Sum/Reset/Marshal/Unmarshal) and the KDF, by one inductive
// step from an ARBITRARY valid state, over the compression function as an uninterpreted function
// (UF-C).  That blockGeneric is the GB/T 32905 compression function is a separate obligation
// (verifH_c01_block).

// c01C: compression function CF(V, B): symbolic = uninterpreted, native (replay) = the real pure-Go one.
func c01C(h [8]uint32, blk []byte) [8]uint32 {
	if !verifSymbolic() {
		var d digest
		d.h = h
		blockGeneric(&d, blk[:64])
		return d.h
	}
	hb := make([]byte, 32)
	for i := 0; i < 8; i++ {
		hb[4*i], hb[4*i+1], hb[4*i+2], hb[4*i+3] = byte(h[i]>>24), byte(h[i]>>16), byte(h[i]>>8), byte(h[i])
	}
	r := verifUF("CF", 32, hb, blk[:64])
	var out [8]uint32
	for i := 0; i < 8; i++ {
		out[i] = uint32(r[4*i])<<24 | uint32(r[4*i+1])<<16 | uint32(r[4*i+2])<<8 | uint32(r[4*i+3])
	}
	return out
}

func c01Fold(h [8]uint32, data []byte) [8]uint32 {
	for len(data) >= 64 {
		h = c01C(h, data[:64])
		data = data[64:]
	}
	return h
}

// contract of every block routine: dig.h = fold CF over the whole 64-byte chunks of p
func verifModel_blockGeneric(dig *digest, p []byte) { dig.h = c01Fold(dig.h, p) }

// GB/T 32905 5.2 padding for a message of `total` bytes whose last partial block is `tail`:
// tail || 0x80 || 0* || 64-bit bit length, to a multiple of 64 bytes.
func c01Pad(tail []byte, total uint64) []byte {
	out := append([]byte(nil), tail...)
	out = append(out, 0x80)
	for len(out)%64 != 56 {
		out = append(out, 0)
	}
	bits := total * 8
	for i := 7; i >= 0; i-- {
		out = append(out, byte(bits>>(8*uint(i))))
	}
	return out
}

func c01Digest(h [8]uint32) []byte {
	out := make([]byte, 32)
	for i := 0; i < 8; i++ {
		out[4*i], out[4*i+1], out[4*i+2], out[4*i+3] = byte(h[i]>>24), byte(h[i]>>16), byte(h[i]>>8), byte(h[i])
	}
	return out
}

var c01IV = [8]uint32{0x7380166f, 0x4914b2b9, 0x172442d7, 0xda8a0600, 0xa96f30bc, 0x163138aa, 0xe38dee4d, 0xb0fb0e4e}

// arbitrary valid running state: h arbitrary, nx buffered bytes, stale bytes after them arbitrary,
// len = 64*q + nx for an arbitrary q
func c01State(nx int) *digest {
	d := new(digest)
	for i := range d.h {
		d.h[i] = verifU32("h")
	}
	copy(d.x[:], verifBytes("x", 64))
	d.nx = nx
	q := verifU64("q")
	verifAssume(q < 1<<54)
	d.len = q*64 + uint64(nx)
	return d
}

func verifH_c01_write() {
	nx, n := verifParam("nx"), verifParam("n")
	d := c01State(nx)
	d0 := *d
	p := verifBytes("p", n)
	keep := append([]byte(nil), p...)
	nn, err := d.Write(p)
	verifAssert(nn == n && err == nil, "Write returns (len(p), nil)")
	verifAssert(verifEqBytes(p, keep), "input not modified")
	data := append(append([]byte(nil), d0.x[:nx]...), keep...)
	h := c01Fold(d0.h, data)
	rem := len(data) % 64
	verifAssert(d.h == h, "chaining value = CF folded over the completed blocks")
	verifAssert(d.nx == rem, "buffered byte count")
	verifAssert(verifEqBytes(d.x[:rem], data[len(data)-rem:]), "remainder is buffered")
	verifAssert(d.len == d0.len+uint64(n), "total length")
	verifReach("end")
}

func verifH_c01_sum() {
	nx, plen, spare := verifParam("nx"), verifParam("prefix"), verifParam("spare")
	d := c01State(nx)
	d0 := *d
	in := verifBytesCap("in", plen, plen+spare)
	keep := append([]byte(nil), in...)
	out := d.Sum(in)
	verifAssert(*d == d0, "Sum leaves the running state bit-for-bit unchanged")
	verifAssert(len(out) == plen+32 && verifEqBytes(out[:plen], keep), "Sum appends 32 bytes to its argument")
	h := c01Fold(d0.h, c01Pad(d0.x[:nx], d0.len))
	verifAssert(verifEqBytes(out[plen:], c01Digest(h)), "digest = CF folded over the GB/T 32905 padding of the tail")
	verifReach("end")
}

func verifH_c01_reset_marshal() {
	nx := verifParam("nx")
	d := c01State(nx)
	b, err := d.MarshalBinary()
	verifAssert(err == nil && len(b) == marshaledSize, "MarshalBinary")
	var e digest
	copy(e.x[:], verifBytes("junk", 64))
	err = e.UnmarshalBinary(b)
	verifAssert(err == nil, "UnmarshalBinary accepts what MarshalBinary produced")
	verifAssert(e.h == d.h && e.nx == d.nx && e.len == d.len && verifEqBytes(e.x[:nx], d.x[:nx]), "state round-trips")
	// continuing either object gives the same digest
	tail := verifBytes("tail", 3)
	d.Write(tail)
	e.Write(tail)
	verifAssert(verifEqBytes(d.Sum(nil), e.Sum(nil)), "restored state continues identically")
	d.Reset()
	verifAssert(d.h == c01IV && d.nx == 0 && d.len == 0, "Reset restores the initial state")
	verifReach("end")
}

// UnmarshalBinary on arbitrary bytes: no panic; success only for the exact size and magic, and then the
// state is valid (nx = len mod 64).
func verifH_c01_unmarshal_any() {
	n := verifParam("n")
	b := verifBytes("b", n)
	var d digest
	err := d.UnmarshalBinary(b)
	if err == nil {
		verifAssert(n == marshaledSize && b[0] == 's' && b[1] == 'm' && b[2] == '3' && b[3] == 3, "accepted only with size and magic")
		verifAssert(d.nx >= 0 && d.nx < 64 && uint64(d.nx) == d.len%64, "restored state is valid")
	} else {
		verifAssert(n != marshaledSize || !verifAll(b[0] == 's', b[1] == 'm', b[2] == '3', b[3] == 3), "well-formed state is not refused")
	}
	verifReach("end")
}

// reference KDF from an absorbed state: first keyLen bytes of H(z||1) || H(z||2) || ...
func c01KdfSpec(h [8]uint32, tail []byte, total uint64, keyLen int) []byte {
	var out []byte
	for ct := uint32(1); len(out) < keyLen; ct++ {
		data := append(append([]byte(nil), tail...), byte(ct>>24), byte(ct>>16), byte(ct>>8), byte(ct))
		full := len(data) / 64 * 64
		hh := c01Fold(h, data[:full])
		hh = c01Fold(hh, c01Pad(data[full:], total+4))
		out = append(out, c01Digest(hh)...)
	}
	return out[:keyLen]
}

// kdf (dispatcher of the build) from an arbitrary absorbed state
func verifH_c01_kdf_state() {
	nx, limit, keyLen := verifParam("nx"), verifParam("limit"), verifParam("keylen")
	c01Tier()
	d := c01State(nx)
	d0 := *d
	k := kdf(d, keyLen, limit)
	verifAssert(len(k) == keyLen, "output length")
	verifAssert(verifEqBytes(k, c01KdfSpec(d0.h, d0.x[:nx], d0.len, keyLen)), "KDF output = first keyLen bytes of H(z||1)||H(z||2)||...")
	verifAssert(*d == d0, "base state unchanged")
	verifReach("end")
}

// exported path: (*digest).Kdf on a previously used object, twice in a row (history independence)
func verifH_c01_kdf_api() {
	zlen, keyLen, zlen2, keyLen2 := verifParam("zlen"), verifParam("keylen"), verifParam("zlen2"), verifParam("keylen2")
	c01Tier()
	d := c01State(verifParam("nx"))
	z := verifBytes("z", zlen)
	k := d.Kdf(z, keyLen)
	full := zlen / 64 * 64
	want := c01KdfSpec(c01Fold(c01IV, z[:full]), z[full:], uint64(zlen), keyLen)
	verifAssert(len(k) == keyLen && verifEqBytes(k, want), "Kdf(z,n) = first n bytes of H(z||1)||H(z||2)||...")
	z2 := verifBytes("z2", zlen2)
	k2 := Kdf(z2, keyLen2)
	full2 := zlen2 / 64 * 64
	want2 := c01KdfSpec(c01Fold(c01IV, z2[:full2]), z2[full2:], uint64(zlen2), keyLen2)
	verifAssert(len(k2) == keyLen2 && verifEqBytes(k2, want2), "second Kdf call equals the definition as well")
	verifReach("end")
}

// New/Write/Sum through the hash.Hash interface: digest of a 3-way split equals the definition
func verifH_c01_hash_api() {
	a, b, c := verifParam("a"), verifParam("b"), verifParam("c")
	c01Tier()
	m := verifBytes("m", a+b+c)
	h := New()
	h.Write(m[:a])
	mid := h.Sum(nil)
	h.Write(m[a : a+b])
	h.Write(m[a+b:])
	out := h.Sum(nil)
	ref := func(x []byte) []byte {
		full := len(x) / 64 * 64
		return c01Digest(c01Fold(c01Fold(c01IV, x[:full]), c01Pad(x[full:], uint64(len(x)))))
	}
	verifAssert(verifEqBytes(out, ref(m)), "digest of the concatenation")
	verifAssert(verifEqBytes(mid, ref(m[:a])), "interleaved Sum is the digest of the prefix")
	h.Reset()
	h.Write(m[:a])
	verifAssert(verifEqBytes(h.Sum(nil), ref(m[:a])), "after Reset the object hashes from scratch")
	verifReach("end")
}

// ---- blockGeneric = the compression function CF of GB/T 32905 (5.3.2, 5.3.3) ----

func c01RotL(x uint32, k uint) uint32 { k %= 32; return x<<k | x>>(32-k) }
func c01P0(x uint32) uint32          { return x ^ c01RotL(x, 9) ^ c01RotL(x, 17) }
func c01P1(x uint32) uint32          { return x ^ c01RotL(x, 15) ^ c01RotL(x, 23) }

// CF written from the standard in loop form: message expansion, then 64 rounds with
// FF_j/GG_j = xor (j < 16) or majority / choice (j >= 16), T_j = 79cc4519 / 7a879d8a.
func c01CFSpec(v [8]uint32, blk []byte) [8]uint32 {
	var w [68]uint32
	var w1 [64]uint32
	for j := 0; j < 16; j++ {
		w[j] = uint32(blk[4*j])<<24 | uint32(blk[4*j+1])<<16 | uint32(blk[4*j+2])<<8 | uint32(blk[4*j+3])
	}
	for j := 16; j < 68; j++ {
		w[j] = c01P1(w[j-16]^w[j-9]^c01RotL(w[j-3], 15)) ^ c01RotL(w[j-13], 7) ^ w[j-6]
	}
	for j := 0; j < 64; j++ {
		w1[j] = w[j] ^ w[j+4]
	}
	a, b, c, d, e, f, g, h := v[0], v[1], v[2], v[3], v[4], v[5], v[6], v[7]
	for j := 0; j < 64; j++ {
		t := uint32(0x79cc4519)
		if j >= 16 {
			t = 0x7a879d8a
		}
		ss1 := c01RotL(c01RotL(a, 12)+e+c01RotL(t, uint(j)), 7)
		ss2 := ss1 ^ c01RotL(a, 12)
		var ff, gg uint32
		if j < 16 {
			ff = a ^ b ^ c
			gg = e ^ f ^ g
		} else {
			ff = (a & b) | (a & c) | (b & c)
			gg = (e & f) | (^e & g)
		}
		tt1 := ff + d + ss2 + w1[j]
		tt2 := gg + h + ss1 + w[j]
		d = c
		c = c01RotL(b, 9)
		b = a
		a = tt1
		h = g
		g = c01RotL(f, 19)
		f = e
		e = c01P0(tt2)
	}
	return [8]uint32{a ^ v[0], b ^ v[1], c ^ v[2], d ^ v[3], e ^ v[4], f ^ v[5], g ^ v[6], h ^ v[7]}
}

// for every chaining value and every 64-byte block; one block, and two blocks in one call
func verifH_c01_block() {
	nb := verifParam("blocks")
	verifWordLevel(true) // keep 32-bit words whole so that the chained lemmas relate round registers
	var d digest
	for i := range d.h {
		d.h[i] = verifU32("h")
	}
	v := d.h
	p := verifBytes("p", 64*nb)
	blockGeneric(&d, p)
	want := v
	for i := 0; i < nb; i++ {
		want = c01CFSpec(want, p[64*i:])
	}
	verifAssertEqSweep(c01Digest(d.h), c01Digest(want), "blockGeneric equals the compression function of GB/T 32905 for every chaining value and block")
	verifReach("end")
}
