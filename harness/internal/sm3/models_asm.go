package sm3

import "unsafe"

// Contract models of the amd64 SM3 assembly (asm-wrappers configuration): every routine is the
// compression function CF (uninterpreted) applied lane-wise / block-wise; memory footprints are asserted.

// c01Tier selects the dispatch tier of the case: 0 scalar asm, 1 SSSE3/AVX, 2 AVX2.
func c01Tier() {
	t := verifParam("tier")
	useAVX2 = t == 2
	useAVX = t >= 1
	useSSSE3 = t >= 1
}

func verifModel_blockAMD64(dig *digest, p []byte) { dig.h = c01Fold(dig.h, p) }
func verifModel_blockSIMD(dig *digest, p []byte)  { dig.h = c01Fold(dig.h, p) }
func verifModel_blockAVX2(dig *digest, p []byte)  { dig.h = c01Fold(dig.h, p) }

func verifLanes(n int, dig **[8]uint32, p **byte, blocks int) {
	digs := (*[8]*[8]uint32)(unsafe.Pointer(dig))
	ptrs := (*[8]*byte)(unsafe.Pointer(p))
	for j := 0; j < n; j++ {
		data := unsafe.Slice(ptrs[j], 64*blocks) // footprint: lane j must own 64*blocks bytes
		*digs[j] = c01Fold(*digs[j], data)
	}
}

func verifModel_blockMultBy4(dig **[8]uint32, p **byte, buffer *byte, blocks int) {
	_ = unsafe.Slice(buffer, 1216) // scratch area used by the kernel
	verifLanes(4, dig, p, blocks)
}

func verifModel_blockMultBy8(dig **[8]uint32, p **byte, buffer *byte, blocks int) {
	_ = unsafe.Slice(buffer, 2432)
	verifLanes(8, dig, p, blocks)
}

func verifCopyResults(n int, dig *uint32, p *byte) {
	words := unsafe.Slice(dig, 8*n)
	out := unsafe.Slice(p, 32*n)
	for i, w := range words {
		out[4*i], out[4*i+1], out[4*i+2], out[4*i+3] = byte(w>>24), byte(w>>16), byte(w>>8), byte(w)
	}
}

func verifModel_copyResultsBy4(dig *uint32, p *byte) { verifCopyResults(4, dig, p) }
func verifModel_copyResultsBy8(dig *uint32, p *byte) { verifCopyResults(8, dig, p) }
