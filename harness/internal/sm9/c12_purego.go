package sm9

import (
	"errors"
	"io"

	"github.com/emmansun/gmsm/internal/sm9/bn256"
)

// C12 / C14 (SM9): ephemeral and master scalars are exactly the sampled blocks; range checks of the key
// constructors.  Group arithmetic is abstract (harness/internal/sm9/bn256/models_purego.go).

var c12ErrSource = errors.New("random source failed")

// scripted random source: delivers arbitrary bytes; at call index failAt it misbehaves:
//   mode 1: returns an error; mode 2: delivers half of the request, then EOF;
//   mode 3: delivers half of the request with a nil error (a legal short read) and carries on.
// One-byte requests (randutil.MaybeReadByte) are served separately and not counted.
type c12Reader struct {
	calls  int
	failAt int
	mode   int
	stream []byte // every byte handed out for multi-byte requests, in order
	dead   bool
	preset [][]byte // blocks to hand out first (created by the harness)
	limit  int      // the source ends (EOF) after this many multi-byte calls (0: never)
}

func (r *c12Reader) Read(p []byte) (int, error) {
	if len(p) == 1 {
		p[0] = verifU8("maybebyte")
		return 1, nil
	}
	if r.dead {
		return 0, io.EOF
	}
	r.calls++
	if r.limit > 0 && r.calls > r.limit {
		r.dead = true
		return 0, io.EOF
	}
	if r.calls == r.failAt {
		switch r.mode {
		case 1:
			r.dead = true
			return 0, c12ErrSource
		case 2:
			half := len(p) / 2
			b := verifBytes("partial", half)
			copy(p, b)
			r.stream = append(r.stream, b...)
			r.dead = true
			return half, io.EOF
		case 3:
			half := len(p) / 2
			b := verifBytes("short", half)
			copy(p, b)
			r.stream = append(r.stream, b...)
			return half, nil
		}
	}
	var b []byte
	if len(r.preset) > 0 && len(r.preset[0]) == len(p) {
		b, r.preset = r.preset[0], r.preset[1:]
	} else {
		b = verifBytes("rnd", len(p))
	}
	copy(p, b)
	r.stream = append(r.stream, b...)
	return len(p), nil
}

// a < b on equal-length big-endian strings
func c12Less(a, b []byte) bool {
	lt, eq := false, true
	for i := range a {
		lt = verifAny(lt, verifAll(eq, a[i] < b[i]))
		eq = verifAll(eq, a[i] == b[i])
	}
	return lt
}

func c12IsZero(a []byte) bool {
	z := true
	for _, x := range a {
		z = verifAll(z, x == 0)
	}
	return z
}

// randomScalar: the scalar is exactly the first 32-byte block of the stream lying in [1, n-1]; blocks are
// consumed in order, nothing is masked, reduced or reused; a failing source gives an error.
func verifH_c12_sm9_randomscalar() {
	rd := &c12Reader{failAt: verifParam("failat"), mode: verifParam("mode"), limit: 4}
	k, err := randomScalar(rd)
	nblk := len(rd.stream) / 32
	inRange := func(b []byte) bool { return verifAll(!c12IsZero(b), c12Less(b, bn256.OrderBytes)) }
	if err != nil {
		verifAssert(rd.dead, "an error is reported only when the source failed")
		for j := 0; j < nblk; j++ {
			verifAssert(!inRange(rd.stream[32*j:32*j+32]), "every complete block consumed before the failure was out of range")
		}
		verifReach("failed")
		verifReach("end")
		return
	}
	verifAssert(nblk >= 1 && len(rd.stream) == 32*nblk, "whole blocks are consumed")
	last := rd.stream[32*(nblk-1):]
	verifAssert(verifEqBytes(k.Bytes(orderNat), last), "the scalar is exactly the last sampled block (no masking, no reduction)")
	verifAssert(inRange(last), "the accepted block lies in [1, n-1]")
	for j := 0; j < nblk-1; j++ {
		verifAssert(!inRange(rd.stream[32*j:32*j+32]), "every earlier block was out of range (none skipped)")
	}
	if nblk > 1 {
		verifReach("resampled")
	}
	verifReach("ok")
	verifReach("end")
}

// GenerateSignMasterKey / GenerateEncryptMasterKey: the master scalar is the first block of the stream,
// with byte 1 XOR-ed with 0x42, that lies in [1, n-2]; a source that fails or ends returns an error and
// no key; short reads are completed (io.ReadFull), never padded.
func verifH_c12_sm9_genmaster() {
	which := verifParam("which")
	rd := &c12Reader{failAt: verifParam("failat"), mode: verifParam("mode"), limit: 4}
	if verifSymbolic() {
		bn256.VerifG1BaseScalars, bn256.VerifG2BaseScalars = nil, nil
	}
	var d []byte
	var err error
	var isNil bool
	if which == 0 {
		k, e := GenerateSignMasterKey(rd)
		err, isNil = e, k == nil
		if k != nil {
			d = k.Bytes()
		}
	} else {
		k, e := GenerateEncryptMasterKey(rd)
		err, isNil = e, k == nil
		if k != nil {
			d = k.Bytes()
		}
	}
	nblk := len(rd.stream) / 32
	tr := func(b []byte) []byte {
		t := append([]byte(nil), b...)
		t[1] ^= 0x42
		return t
	}
	inRange := func(b []byte) bool { return verifAll(!c12IsZero(b), c12Less(b, bn256.OrderMinus1Bytes)) }
	if err != nil {
		verifAssert(isNil, "no key on failure")
		verifAssert(rd.dead, "an error is reported only when the source failed")
		for j := 0; j < nblk; j++ {
			verifAssert(!inRange(tr(rd.stream[32*j:32*j+32])), "every complete block consumed before the failure was out of range")
		}
		verifReach("failed")
		verifReach("end")
		return
	}
	verifAssert(!isNil && nblk >= 1 && len(rd.stream) == 32*nblk, "whole blocks are consumed")
	last := tr(rd.stream[32*(nblk-1):])
	verifAssert(len(d) == 32 && verifEqBytes(d, last), "the master scalar is exactly the last sampled block with byte 1 XOR 0x42")
	verifAssert(inRange(last), "the accepted scalar lies in [1, n-2]")
	for j := 0; j < nblk-1; j++ {
		verifAssert(!inRange(tr(rd.stream[32*j:32*j+32])), "every earlier block was out of range (none skipped)")
	}
	if verifSymbolic() {
		bs := bn256.VerifG2BaseScalars
		if which == 1 {
			bs = bn256.VerifG1BaseScalars
		}
		verifAssert(len(bs) >= 1 && verifEqBytes(bs[len(bs)-1], last), "the public key is the base-point multiple of that very scalar")
	}
	if nblk > 1 {
		verifReach("resampled")
	}
	verifReach("ok")
	verifReach("end")
}

// NewSignMasterPrivateKey / NewEncryptMasterPrivateKey on every byte string of length n: accepted exactly
// if it is at most 32 bytes long and its value lies in [1, n-2]; the stored scalar is the 32-byte
// big-endian form of that value.
func verifH_c14_sm9_masterrange() {
	which, n := verifParam("which"), verifParam("n")
	key := verifBytes("key", n)
	keep := append([]byte(nil), key...)
	var d []byte
	var err error
	if which == 0 {
		k, e := NewSignMasterPrivateKey(key)
		err = e
		if k != nil {
			d = k.Bytes()
		}
	} else {
		k, e := NewEncryptMasterPrivateKey(key)
		err = e
		if k != nil {
			d = k.Bytes()
		}
	}
	want := false
	var v []byte
	if n <= 32 {
		v = append(make([]byte, 32-n), keep...)
		want = verifAll(!c12IsZero(v), c12Less(v, bn256.OrderMinus1Bytes))
	}
	verifAssert((err == nil) == want, "a master private scalar is accepted exactly if it has at most 32 bytes and lies in [1, n-2]")
	if err == nil && n <= 32 {
		verifAssert(len(d) == 32 && verifEqBytes(d, v), "and is stored as its 32-byte big-endian value (no reduction)")
		verifReach("accepted")
	}
	verifReach("end")
}
