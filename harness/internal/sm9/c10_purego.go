package sm9

import (
	"errors"

	"github.com/emmansun/gmsm/internal/bigmod"
	"github.com/emmansun/gmsm/internal/sm3"
	"github.com/emmansun/gmsm/internal/sm9/bn256"
)

// C10 (narrow): SM9 signature verification and key-exchange plumbing as data flow over the abstract
// groups and pairing (harness/internal/sm9/bn256/models_purego.go); H1/H2 and the KDF are the library's
// own code over the uninterpreted SM3 compression function.

func verifModel_SignMasterPublicKey_ScalarBaseMult(pub *SignMasterPublicKey, scalar []byte) (*bn256.GT, error) {
	if len(scalar) != 32 {
		return nil, errors.New("invalid scalar length")
	}
	return bn256.VerifGTBase(bn256.VerifG2Bytes(pub.MasterPublicKey), scalar), nil
}

func verifModel_EncryptMasterPublicKey_ScalarBaseMult(pub *EncryptMasterPublicKey, scalar []byte) (*bn256.GT, error) {
	if len(scalar) != 32 {
		return nil, errors.New("invalid scalar length")
	}
	return bn256.VerifGTBase(bn256.VerifG1Bytes(pub.MasterPublicKey), scalar), nil
}

var c10P = []byte{0xB6, 0x40, 0x00, 0x00, 0x02, 0xA3, 0xA6, 0xF1, 0xD6, 0x03, 0xAB, 0x4F, 0xF5, 0x8E, 0xC7, 0x45, 0x21, 0xF2, 0x93, 0x4B, 0x1A, 0x7A, 0xEE, 0xDB, 0xE5, 0x6F, 0x9B, 0x27, 0xE3, 0x51, 0x45, 0x7D}

func c10InRangeN(b []byte) bool { return verifAll(!c12IsZero(b), c12Less(b, bn256.OrderBytes)) }

// (*SignMasterPublicKey).Verify(uid, hid, hash, h, S) returns true exactly if S is 65 bytes with tag 04
// and canonical on-curve coordinates, h lies in [1, n-1], and H2(hash || (e(S, P) * g^h)) = h with
// P = [H1(uid||hid)]P2 + Ppub.
func verifH_c10_verify() {
	sn := verifParam("sn")
	pubBytes := verifBytes("ppub", 128)
	pub := &SignMasterPublicKey{MasterPublicKey: &bn256.G2{}}
	if !verifSymbolic() {
		c10VerifyNative(sn, pubBytes)
		verifReach("end")
		return
	}
	bn256.VerifSetG2(pub.MasterPublicKey, pubBytes)
	uid := verifBytes("uid", 3)
	hid := verifU8("hid")
	hash := verifBytes("hash", 32)
	h := verifBytes("h", 32)
	S := verifBytes("S", sn)
	keepS, keepH := append([]byte(nil), S...), append([]byte(nil), h...)
	if sn == 65 && verifSymbolic() {
		verifAssume(!c12IsZero(S[1:])) // the all-zero encoding (point at infinity) is outside the abstract group model
	}
	got := pub.Verify(uid, hid, hash, h, S)
	want := false
	if sn == 65 {
		sx, sy := keepS[1:33], keepS[33:65]
		p := pub.GenerateUserPublicKey(uid, hid)
		sp := &bn256.G1{}
		bn256.VerifSetG1(sp, keepS[1:])
		u := bn256.Pair(sp, p)
		t := bn256.VerifGTBase(bn256.VerifG2Bytes(pub.MasterPublicKey), keepH)
		w := new(bn256.GT).Add(u, t)
		buf := append(append([]byte(nil), hash...), w.Marshal()...)
		h2 := hashH2(buf).Bytes(orderNat)
		want = verifAll(keepS[0] == 4, c12Less(sx, c10P), c12Less(sy, c10P), bn256.VerifOnCurveG1(sx, sy), c10InRangeN(keepH), verifEqBytes(h2, keepH))
	}
	verifAssert(got == want, "Verify accepts exactly: S = 04||x||y canonical and on the curve, h in [1,n-1], H2(hash || e(S,P) g^h) = h")
	if got {
		verifReach("accepted")
	}
	verifReach("end")
}

// Key exchange, initiator side, as a HISTORY on one object: InitKeyExchange, a ConfirmResponder that is
// refused (wrong confirmation value) and/or a second InitKeyExchange, then a ConfirmResponder that
// succeeds.  The key returned at the end is the standard's value for the LAST ephemeral scalar and the
// LAST peer point: KDF(IDA || IDB || RA || RB || g1 || g2 || g3) with g1 = e(Ppub,P2)^rA, g2 = e(RB, deA),
// g3 = g2^rA -- nothing of an earlier attempt survives.
func verifH_c10_kx_history() {
	hist := verifParam("hist") // 0: init, confirm; 1: init, failed confirm, confirm; 2: init, failed confirm, init, confirm; 3: init, confirm, init, confirm
	if !verifSymbolic() {
		c10KxNative(hist)
		verifReach("end")
		return
	}
	mpk := &EncryptMasterPublicKey{MasterPublicKey: &bn256.G1{}}
	bn256.VerifSetG1(mpk.MasterPublicKey, verifBytes("ppub", 64))
	priv := &EncryptPrivateKey{PrivateKey: &bn256.G2{}, EncryptMasterPublicKey: mpk}
	bn256.VerifSetG2(priv.PrivateKey, verifBytes("de", 128))
	uidA, uidB := verifBytes("ida", 2), verifBytes("idb", 2)
	hid := verifU8("hid")
	ke := priv.NewKeyExchange(uidA, uidB, 16, true)

	newRB := func(tag string) []byte {
		rb := append([]byte{4}, verifBytes(tag, 64)...)
		verifAssume(verifAll(c12Less(rb[1:33], c10P), c12Less(rb[33:], c10P), bn256.VerifOnCurveG1(rb[1:33], rb[33:])))
		verifAssume(!c12IsZero(rb[1:]))
		return rb
	}
	newR := func(tag string) []byte {
		r := verifBytes(tag, 32)
		verifAssume(c10InRangeN(r))
		return r
	}
	initWith := func(r []byte) []byte {
		rd := &c12Reader{}
		rd.preset = [][]byte{r}
		ra, err := ke.InitKeyExchange(rd, hid)
		verifAssert(err == nil && len(ra) == 65, "InitKeyExchange succeeds with a valid scalar")
		return append([]byte(nil), ra...)
	}
	r := newR("r1")
	ra := initWith(r)
	if hist == 1 || hist == 2 {
		rbBad := newRB("rb0")
		_, _, err := ke.ConfirmResponder(rbBad, verifBytes("sbbad", 32))
		if err == nil {
			// the arbitrary confirmation value happened to be right: not the history under test
			verifReach("end")
			return
		}
	}
	if hist == 3 {
		rb0 := newRB("rb0")
		_, _, err := ke.ConfirmResponder(rb0, nil)
		verifAssert(err == nil, "ConfirmResponder without a confirmation value succeeds")
	}
	if hist >= 2 {
		r = newR("r2")
		ra = initWith(r)
	}
	rb := newRB("rb")
	key, s2, err := ke.ConfirmResponder(rb, nil)
	verifAssert(err == nil && len(key) == 16, "ConfirmResponder without a confirmation value succeeds")
	if err != nil {
		verifReach("end")
		return
	}
	// the standard's values for (r, rb)
	pb := &bn256.G1{}
	bn256.VerifSetG1(pb, rb[1:])
	g1 := bn256.VerifGTBase(bn256.VerifG1Bytes(mpk.MasterPublicKey), r)
	g2 := bn256.Pair(pb, priv.PrivateKey)
	g3, _ := bn256.ScalarMultGT(g2, r)
	qb := mpk.GenerateUserPublicKey(uidB, hid)
	wantRA, _ := new(bn256.G1).ScalarMult(qb, r)
	verifAssert(verifEqBytes(ra, wantRA.MarshalUncompressed()), "RA = [rA]QB for the scalar of this very attempt")
	var buf []byte
	buf = append(buf, uidA...)
	buf = append(buf, uidB...)
	buf = append(buf, ra[1:]...)
	buf = append(buf, rb[1:]...)
	buf = append(buf, g1.Marshal()...)
	buf = append(buf, g2.Marshal()...)
	buf = append(buf, g3.Marshal()...)
	want := c10Kdf(buf, 16)
	verifAssert(verifEqBytes(key, want), "the shared key is KDF(IDA||IDB||RA||RB||g1||g2||g3) of the last attempt (no stale state)")
	verifAssert(len(s2) == 32, "the initiator's confirmation value is produced")
	verifReach("done")
	verifReach("end")
}

func c10Kdf(z []byte, n int) []byte { return sm3.Kdf(z, n) }

// native twin: the real protocol end to end; the initiator object goes through the history, a fresh
// responder answers the LAST attempt, and both keys (and confirmation values) must agree.
func c10KxNative(hist int) {
	seed := verifBytes("seed", 32)
	mk := append([]byte(nil), seed...)
	mk[0] &= 0x3f
	mk[31] |= 1
	master, err := NewEncryptMasterPrivateKey(mk)
	if err != nil {
		return
	}
	hid := byte(2)
	uidA, uidB := []byte("Alice"), []byte("Bob")
	ka, err1 := master.GenerateUserKey(uidA, hid)
	kb, err2 := master.GenerateUserKey(uidB, hid)
	if err1 != nil || err2 != nil {
		return
	}
	rnd := func(tag string) *c12Reader {
		r := verifBytes(tag, 32)
		r[0] &= 0x3f
		r[31] |= 1
		return &c12Reader{preset: [][]byte{r}}
	}
	init := ka.NewKeyExchange(uidA, uidB, 16, true)
	ra, err := init.InitKeyExchange(rnd("r1"), hid)
	verifAssert(err == nil, "InitKeyExchange")
	respond := func(ra []byte, tag string) (*KeyExchange, []byte, []byte) {
		resp := kb.NewKeyExchange(uidB, uidA, 16, true)
		rb, sb, err := resp.RespondKeyExchange(rnd(tag), hid, ra)
		verifAssert(err == nil, "RespondKeyExchange")
		return resp, rb, sb
	}
	if hist == 1 || hist == 2 {
		_, rb0, sb0 := respond(ra, "rb0")
		bad := append([]byte(nil), sb0...)
		bad[0] ^= 1
		_, _, err := init.ConfirmResponder(rb0, bad)
		verifAssert(err != nil, "a wrong confirmation value is refused")
	}
	if hist == 3 {
		_, rb0, sb0 := respond(ra, "rb0")
		_, _, err := init.ConfirmResponder(rb0, sb0)
		verifAssert(err == nil, "first exchange completes")
	}
	if hist >= 2 {
		ra, err = init.InitKeyExchange(rnd("r2"), hid)
		verifAssert(err == nil, "second InitKeyExchange")
	}
	resp, rb, sb := respond(ra, "rb")
	keyA, sa, err := init.ConfirmResponder(rb, sb)
	verifAssert(err == nil, "the genuine responder is accepted on the last attempt (no stale state)")
	if err != nil {
		return
	}
	keyB, err := resp.ConfirmInitiator(sa)
	verifAssert(err == nil, "the responder accepts the initiator's confirmation value")
	verifAssert(verifEqBytes(keyA, keyB), "both sides derive the same key")
}

// H1/H2 (hash-to-range: two SM3 digests, 320-bit value reduced into [1, n-1]) summarised as an
// uninterpreted function of (mode, input) with values in [1, n-1]; their agreement with GM/T 0044 is
// outside the claims that use this model.
func verifModel_hash(z []byte, h hashMode) *bigmod.Nat {
	r := verifUF("sm9.H", 32, []byte{byte(h)}, append([]byte(nil), z...))
	verifAssume(c10InRangeN(r))
	n, err := bigmod.NewNat().SetBytes(r, orderNat)
	if err != nil {
		panic("verifModel_hash")
	}
	return n
}


// native twin of the verification harness: a real signature; every alteration of the S encoding's tag
// or length, and of h, must be rejected, the unaltered pair accepted.
func c10VerifyNative(sn int, seed []byte) {
	mk := append([]byte(nil), seed[:32]...)
	mk[0] &= 0x3f
	mk[31] |= 1
	master, err := NewSignMasterPrivateKey(mk)
	if err != nil {
		return
	}
	uid, hid := seed[32:35], seed[35]
	user, err := master.GenerateUserKey(uid, hid)
	if err != nil {
		return
	}
	hash := seed[40:72]
	r := append([]byte(nil), seed[72:104]...)
	r[0] &= 0x3f
	r[31] |= 1
	h, S, err := user.Sign(&c12Reader{preset: [][]byte{r}, limit: 3}, hash, nil)
	if err != nil {
		return
	}
	pub := master.PublicKey()
	verifAssert(pub.Verify(uid, hid, hash, h, S), "an honest signature verifies")
	switch sn {
	case 65:
		bad := append([]byte(nil), S...)
		bad[0] = seed[104]
		if bad[0] != 4 {
			verifAssert(!pub.Verify(uid, hid, hash, h, bad), "S with an altered format tag is rejected")
		}
		h2 := append([]byte(nil), h...)
		h2[int(seed[105])%32] ^= 1 << (seed[106] % 8)
		verifAssert(!pub.Verify(uid, hid, hash, h2, S), "an altered h is rejected")
	case 64:
		verifAssert(!pub.Verify(uid, hid, hash, h, S[1:]), "S without its format tag is rejected")
	case 66:
		verifAssert(!pub.Verify(uid, hid, hash, h, append(append([]byte(nil), S...), 0)), "S with a trailing byte is rejected")
	case 0:
		verifAssert(!pub.Verify(uid, hid, hash, h, nil), "an empty S is rejected")
	}
}

// UnwrapKey(uid, C, klen): accepted exactly for a 64-byte C (or 65 bytes with tag 04) whose coordinates are
// canonical and on the curve and whose derived key is not all zero; the key is KDF(C || e(C, de) || uid).
func verifH_c10_unwrap() {
	cn := verifParam("cn")
	c := verifBytes("C", cn)
	keep := append([]byte(nil), c...)
	uid := verifBytes("uid", 3)
	if !verifSymbolic() {
		// natively: a real wrap, then every alteration of the ciphertext's length or tag
		seed := verifBytes("seed", 64)
		mk := append([]byte(nil), seed[:32]...)
		mk[0] &= 0x3f
		mk[31] |= 1
		master, err := NewEncryptMasterPrivateKey(mk)
		if err != nil {
			verifReach("end")
			return
		}
		user, err := master.GenerateUserKey(uid, 3)
		if err != nil {
			verifReach("end")
			return
		}
		r := append([]byte(nil), seed[32:]...)
		r[0] &= 0x3f
		r[31] |= 1
		key, ct, err := master.PublicKey().WrapKey(&c12Reader{preset: [][]byte{r}, limit: 3}, uid, 3, 16)
		verifAssert(err == nil && len(ct) == 65 && ct[0] == 4, "WrapKey yields 04 || x || y")
		k1, err := user.UnwrapKey(uid, ct, 16)
		verifAssert(err == nil && verifEqBytes(k1, key), "UnwrapKey inverts WrapKey (65-byte form)")
		k2, err := user.UnwrapKey(uid, ct[1:], 16)
		verifAssert(err == nil && verifEqBytes(k2, key), "UnwrapKey inverts WrapKey (64-byte form)")
		bad := append([]byte(nil), ct...)
		bad[0] = keep0(keep)
		if bad[0] != 4 {
			_, err = user.UnwrapKey(uid, bad, 16)
			verifAssert(err != nil, "a 65-byte ciphertext with another tag is refused")
		}
		_, err = user.UnwrapKey(uid, append(append([]byte(nil), ct...), 0), 16)
		verifAssert(err != nil, "a ciphertext with a trailing byte is refused")
		_, err = user.UnwrapKey(uid, ct[:63], 16)
		verifAssert(err != nil, "a truncated ciphertext is refused")
		verifReach("end")
		return
	}
	mpk := &EncryptMasterPublicKey{MasterPublicKey: &bn256.G1{}}
	bn256.VerifSetG1(mpk.MasterPublicKey, verifBytes("ppub", 64))
	priv := &EncryptPrivateKey{PrivateKey: &bn256.G2{}, EncryptMasterPublicKey: mpk}
	bn256.VerifSetG2(priv.PrivateKey, verifBytes("de", 128))
	key, err := priv.UnwrapKey(uid, c, 16)
	var body []byte
	switch {
	case cn == 64:
		body = keep
	case cn == 65:
		body = keep[1:]
	}
	want := false
	var wantKey []byte
	if body != nil {
		if verifAll(!c12IsZero(body)) { // the all-zero encoding (point at infinity) is outside the abstract group model
			sp := &bn256.G1{}
			bn256.VerifSetG1(sp, body)
			w := bn256.Pair(sp, priv.PrivateKey)
			buf := append(append(append([]byte(nil), body...), w.Marshal()...), uid...)
			wantKey = c10Kdf(buf, 16)
			want = verifAll(cn == 64 || keep[0] == 4, c12Less(body[:32], c10P), c12Less(body[32:], c10P), bn256.VerifOnCurveG1(body[:32], body[32:]), !c12IsZero(wantKey))
		} else {
			verifReach("end")
			return
		}
	}
	verifAssert((err == nil) == want, "UnwrapKey accepts exactly: 64 bytes (or 04 || 64 bytes), canonical on-curve C, non-zero key")
	if err == nil && want {
		verifAssert(verifEqBytes(key, wantKey), "key = KDF(C || e(C, de) || uid)")
		verifReach("accepted")
	}
	verifReach("end")
}

func keep0(b []byte) byte {
	if len(b) == 0 {
		return 0
	}
	return b[0]
}
