package bn256

// C09 (narrow): the decoders' accept sets.  Field multiplication is an uninterpreted function and curve
// membership an opaque predicate (both outside the claim); range checks and byte handling are real code.

func verifModel_gfpMul(c, a, b *gfP) {
	r := verifUF("fp.mul", 32, c09Bytes(a), c09Bytes(b))
	for i := 0; i < 4; i++ {
		o := 8 * (3 - i)
		c[i] = uint64(r[o])<<56 | uint64(r[o+1])<<48 | uint64(r[o+2])<<40 | uint64(r[o+3])<<32 | uint64(r[o+4])<<24 | uint64(r[o+5])<<16 | uint64(r[o+6])<<8 | uint64(r[o+7])
	}
}

func c09Bytes(a *gfP) []byte {
	out := make([]byte, 0, 32)
	for i := 3; i >= 0; i-- {
		w := a[i]
		out = append(out, byte(w>>56), byte(w>>48), byte(w>>40), byte(w>>32), byte(w>>24), byte(w>>16), byte(w>>8), byte(w))
	}
	return out
}

func verifModel_curvePoint_IsOnCurve(c *curvePoint) bool {
	return verifUF("g1.oncurve", 1, c09Bytes(&c.x), c09Bytes(&c.y))[0]&1 == 1
}

func verifModel_twistPoint_IsOnCurve(c *twistPoint) bool {
	return verifUF("g2.oncurve", 1, c09Bytes(&c.x.x), c09Bytes(&c.x.y), c09Bytes(&c.y.x), c09Bytes(&c.y.y))[0]&1 == 1
}

// the field prime as big-endian bytes, from the package constant p2
func c09P() []byte {
	x := gfP(p2)
	return c09Bytes(&x)
}

func c09Less(a, b []byte) bool {
	lt := false
	eq := true
	for i := range a {
		lt = verifAny(lt, verifAll(eq, a[i] < b[i]))
		eq = verifAll(eq, a[i] == b[i])
	}
	return lt
}

// gfP.Unmarshal accepts exactly values below p and stores them verbatim
func verifH_c09_gfp() {
	n := verifParam("n")
	b := verifBytes("b", n)
	e := &gfP{}
	err := e.Unmarshal(b)
	if n < 32 {
		verifAssert(err != nil, "short input refused")
	} else {
		verifAssert((err == nil) == c09Less(b[:32], c09P()), "accepted exactly when the value is below the field prime")
		if err == nil {
			verifAssert(verifEqBytes(c09Bytes(e), b[:32]), "the element holds exactly the decoded value")
		}
	}
	verifReach("end")
}

// point / GT decoders: success implies every coordinate is canonical (below p); short input is an error
func verifH_c09_decode() {
	which, n := verifParam("which"), verifParam("n")
	m := verifBytes("m", n)
	if !verifSymbolic() && which == 0 && n >= 64 {
		// native instance finder: a real G1 point whose x-coordinate is re-encoded non-canonically as x+p
		// when that fits in 256 bits (symbolically curve membership is opaque, natively random bytes never
		// lie on the curve)
		k := verifBytes("scalar", 32)
		k[0] &= 0x7f
		if g, err := new(G1).ScalarBaseMult(k); err == nil {
			enc := g.Marshal()
			copy(m, enc)
			if verifU8("noncanonical")&1 == 1 {
				var carry uint16
				pb := c09P()
				x := make([]byte, 32)
				for i := 31; i >= 0; i-- {
					s := uint16(enc[i]) + uint16(pb[i]) + carry
					x[i] = byte(s)
					carry = s >> 8
				}
				if carry == 0 {
					copy(m, x)
				}
			}
		}
	}
	if !verifSymbolic() && which == 0 && n >= 64 && verifU8("zerocoord")&3 == 1 {
		// ... or with one coordinate zeroed (never a curve point: the group has prime order)
		off := 32 * int(verifU8("whichcoord")&1)
		for i := 0; i < 32; i++ {
			m[off+i] = 0
		}
	}
	var err error
	need, coords, skip := 0, 0, 0
	var g1 *G1
	var g2 *G2
	switch which {
	case 0:
		g1 = new(G1)
		_, err = g1.Unmarshal(m)
		need, coords = 64, 2
	case 1:
		g2 = new(G2)
		_, err = g2.Unmarshal(m)
		need, coords = 128, 4
	case 2:
		_, err = new(GT).Unmarshal(m)
		need, coords = 384, 12
	}
	if n < need {
		verifAssert(err != nil, "short input refused")
	} else if err == nil {
		for i := 0; i < coords; i++ {
			verifAssert(c09Less(m[skip+32*i:skip+32*i+32], c09P()), "an accepted encoding has every coordinate below the field prime")
		}
		// ... and is either the all-zero encoding (point at infinity) or satisfies the curve equation
		// (the opaque membership predicate, evaluated on the decoded coordinates): an encoding with only
		// SOME zero coordinates is a pair of coordinates like any other
		if which < 2 && n >= need {
			zero := true
			for _, b := range m[:need] {
				zero = verifAll(zero, b == 0)
			}
			if verifSymbolic() {
				on := false
				if which == 0 {
					on = verifModel_curvePoint_IsOnCurve(g1.p)
				} else {
					on = verifModel_twistPoint_IsOnCurve(g2.p)
				}
				verifAssert(verifAny(zero, on), "an accepted encoding is all-zero or a point on the curve")
			} else if which == 0 && !zero {
				verifAssert(g1.p.IsOnCurve() && !g1.p.IsInfinity(), "an accepted non-zero encoding decodes to a finite point on the curve")
			} else if which == 1 && !zero {
				verifAssert(g2.p.IsOnCurve() && !g2.p.IsInfinity(), "an accepted non-zero encoding decodes to a finite point on the curve")
			}
		}
		verifReach("accepted")
	}
	verifReach("end")
}
