package bn256

import (
	"errors"
	"math/big"
)

// Abstract SM9 groups (purego configuration) for the harnesses of internal/sm9 and sm9 (C10, C12, C14):
// an element of G1 / G2 / GT is its affine encoding (64 / 128 / 384 bytes) kept verbatim in the
// coordinate limbs (plain domain: montEncode/montDecode are the identity); the group operations and the
// pairing are uninterpreted functions of those encodings.  Ghost lists record the scalars handed to the
// base-point multiplications.  Group and pairing arithmetic is outside every claim using this model.

var VerifG1BaseScalars, VerifG2BaseScalars [][]byte

func verifPutGFp(g *gfP, b []byte) {
	for i := 0; i < 4; i++ {
		o := 8 * (3 - i)
		g[i] = uint64(b[o])<<56 | uint64(b[o+1])<<48 | uint64(b[o+2])<<40 | uint64(b[o+3])<<32 | uint64(b[o+4])<<24 | uint64(b[o+5])<<16 | uint64(b[o+6])<<8 | uint64(b[o+7])
	}
}

func verifGetGFp(out []byte, g *gfP) []byte {
	for i := 3; i >= 0; i-- {
		w := g[i]
		out = append(out, byte(w>>56), byte(w>>48), byte(w>>40), byte(w>>32), byte(w>>24), byte(w>>16), byte(w>>8), byte(w))
	}
	return out
}

func verifModel_montEncode(c, a *gfP) { *c = *a }
func verifModel_montDecode(c, a *gfP) { *c = *a }

// ---- G1 ----

func VerifG1Bytes(e *G1) []byte {
	out := make([]byte, 0, 64)
	out = verifGetGFp(out, &e.p.x)
	return verifGetGFp(out, &e.p.y)
}

func VerifG1Inf(e *G1) bool { return e.p.z[0]|e.p.z[1]|e.p.z[2]|e.p.z[3] == 0 }

func verifSetG1(e *G1, v []byte, inf bool) {
	if e.p == nil {
		e.p = &curvePoint{}
	}
	verifPutGFp(&e.p.x, v[:32])
	verifPutGFp(&e.p.y, v[32:])
	one := uint64(1)
	if inf {
		one = 0
	}
	e.p.z = gfP{one}
	e.p.t = gfP{one}
}

// VerifSetG1: a finite abstract element with the given encoding (for harnesses)
func VerifSetG1(e *G1, v []byte) { verifSetG1(e, v, false) }

func verifModel_G1_ScalarBaseMult(e *G1, scalar []byte) (*G1, error) {
	if len(scalar) != 32 {
		return nil, errors.New("invalid scalar length")
	}
	s := append([]byte(nil), scalar...)
	VerifG1BaseScalars = append(VerifG1BaseScalars, s)
	verifSetG1(e, verifUF("g1.base", 64, s), false)
	return e, nil
}

func verifModel_G1_ScalarMult(e *G1, a *G1, scalar []byte) (*G1, error) {
	if len(scalar) != 32 {
		return nil, errors.New("invalid scalar length")
	}
	s := append([]byte(nil), scalar...)
	verifSetG1(e, verifUF("g1.mul", 64, VerifG1Bytes(a), s), VerifG1Inf(a))
	return e, nil
}

func verifModel_G1_Add(e *G1, a, b *G1) *G1 {
	x, y := VerifG1Bytes(a), VerifG1Bytes(b)
	verifSetG1(e, verifUF("g1.add.comm", 64, x, y), verifUF("g1.add.inf.comm", 1, x, y)[0]&1 == 1)
	return e
}

func verifModel_G1_fillBytes(e *G1, buffer []byte) {
	if e.p == nil {
		e.p = &curvePoint{}
	}
	if VerifG1Inf(e) {
		return
	}
	copy(buffer, VerifG1Bytes(e))
}

// ---- G2 ----

func VerifG2Bytes(e *G2) []byte {
	out := make([]byte, 0, 128)
	out = verifGetGFp(out, &e.p.x.x)
	out = verifGetGFp(out, &e.p.x.y)
	out = verifGetGFp(out, &e.p.y.x)
	return verifGetGFp(out, &e.p.y.y)
}

func VerifG2Inf(e *G2) bool {
	z := &e.p.z
	return z.x[0]|z.x[1]|z.x[2]|z.x[3]|z.y[0]|z.y[1]|z.y[2]|z.y[3] == 0
}

func verifSetG2(e *G2, v []byte, inf bool) {
	if e.p == nil {
		e.p = &twistPoint{}
	}
	verifPutGFp(&e.p.x.x, v[:32])
	verifPutGFp(&e.p.x.y, v[32:64])
	verifPutGFp(&e.p.y.x, v[64:96])
	verifPutGFp(&e.p.y.y, v[96:])
	one := uint64(1)
	if inf {
		one = 0
	}
	e.p.z = gfP2{gfP{}, gfP{one}}
	e.p.t = gfP2{gfP{}, gfP{one}}
}

func VerifSetG2(e *G2, v []byte) { verifSetG2(e, v, false) }

func verifModel_G2_ScalarBaseMult(e *G2, scalar []byte) (*G2, error) {
	if len(scalar) != 32 {
		return nil, errors.New("invalid scalar length")
	}
	s := append([]byte(nil), scalar...)
	VerifG2BaseScalars = append(VerifG2BaseScalars, s)
	verifSetG2(e, verifUF("g2.base", 128, s), false)
	return e, nil
}

func verifModel_G2_ScalarMult(e *G2, a *G2, scalar []byte) (*G2, error) {
	if len(scalar) != 32 {
		return nil, errors.New("invalid scalar length")
	}
	s := append([]byte(nil), scalar...)
	verifSetG2(e, verifUF("g2.mul", 128, VerifG2Bytes(a), s), VerifG2Inf(a))
	return e, nil
}

func verifModel_G2_Add(e *G2, a, b *G2) *G2 {
	x, y := VerifG2Bytes(a), VerifG2Bytes(b)
	verifSetG2(e, verifUF("g2.add.comm", 128, x, y), verifUF("g2.add.inf.comm", 1, x, y)[0]&1 == 1)
	return e
}

func verifModel_G2_fillBytes(e *G2, buffer []byte) {
	if e.p == nil {
		e.p = &twistPoint{}
	}
	if VerifG2Inf(e) {
		return
	}
	copy(buffer, VerifG2Bytes(e))
}

// ---- GT and the pairing ----

func VerifGTBytes(e *GT) []byte {
	out := make([]byte, 0, 384)
	for _, g := range []*gfP{&e.p.x.x.x, &e.p.x.x.y, &e.p.x.y.x, &e.p.x.y.y, &e.p.y.x.x, &e.p.y.x.y, &e.p.y.y.x, &e.p.y.y.y, &e.p.z.x.x, &e.p.z.x.y, &e.p.z.y.x, &e.p.z.y.y} {
		out = verifGetGFp(out, g)
	}
	return out
}

func verifSetGT(e *GT, v []byte) {
	if e.p == nil {
		e.p = &gfP12{}
	}
	for i, g := range []*gfP{&e.p.x.x.x, &e.p.x.x.y, &e.p.x.y.x, &e.p.x.y.y, &e.p.y.x.x, &e.p.y.x.y, &e.p.y.y.x, &e.p.y.y.y, &e.p.z.x.x, &e.p.z.x.y, &e.p.z.y.x, &e.p.z.y.y} {
		verifPutGFp(g, v[32*i:32*i+32])
	}
}

func VerifSetGT(e *GT, v []byte) { verifSetGT(e, v) }

func verifModel_Pair(g1 *G1, g2 *G2) *GT {
	e := &GT{}
	verifSetGT(e, verifUF("pair", 384, VerifG1Bytes(g1), VerifG2Bytes(g2)))
	return e
}

func verifScalar32(k *big.Int) []byte {
	out := make([]byte, 32)
	return new(big.Int).Mod(k, Order).FillBytes(out)
}

func verifModel_GT_ScalarMult(e *GT, a *GT, k *big.Int) *GT {
	verifSetGT(e, verifUF("gt.exp", 384, VerifGTBytes(a), verifScalar32(k)))
	return e
}

func verifModel_GT_Marshal(e *GT) []byte { return VerifGTBytes(e) }

func verifModel_GT_Add(e *GT, a, b *GT) *GT {
	verifSetGT(e, verifUF("gt.mul.comm", 384, VerifGTBytes(a), VerifGTBytes(b)))
	return e
}

func verifModel_ScalarMultGT(a *GT, scalar []byte) (*GT, error) {
	if len(scalar) != 32 {
		return nil, errors.New("invalid scalar length")
	}
	e := &GT{}
	verifSetGT(e, verifUF("gt.exp", 384, VerifGTBytes(a), append([]byte(nil), scalar...)))
	return e, nil
}

// VerifGTBase: e(P1, Ppub)^k resp. e(Ppub, P2)^k as an uninterpreted function of the master public key
// encoding and the scalar (models of the table-driven (*MasterPublicKey).ScalarBaseMult in internal/sm9)
func VerifGTBase(pub []byte, scalar []byte) *GT {
	e := &GT{}
	verifSetGT(e, verifUF("gt.base", 384, pub, append([]byte(nil), scalar...)))
	return e
}

// VerifOnCurveG1: the opaque membership predicate the model of (*curvePoint).IsOnCurve evaluates
func VerifOnCurveG1(x, y []byte) bool { return verifUF("g1.oncurve", 1, x, y)[0]&1 == 1 }
