package bn256

// C09 (narrow): the Go drivers of the G1 scalar multiplications (window extraction, table construction
// and selection, receiver/operand aliasing) in an EXACT-MULTIPLE model of the group: a point is the
// integer v with P = [v]Q, kept as a 320-bit number (x = low 256 bits, y[0] = high 64 bits; z = 0 for the
// point at infinity).  The complete addition/doubling formulas are replaced by integer addition; all
// multiples stay far below 2^320, so the integer model is exact.  Field arithmetic is outside.

func dlBE64(b []byte) uint64 {
	return uint64(b[0])<<56 | uint64(b[1])<<48 | uint64(b[2])<<40 | uint64(b[3])<<32 | uint64(b[4])<<24 | uint64(b[5])<<16 | uint64(b[6])<<8 | uint64(b[7])
}

func dlPut64(out []byte, w uint64) []byte {
	return append(out, byte(w>>56), byte(w>>48), byte(w>>40), byte(w>>32), byte(w>>24), byte(w>>16), byte(w>>8), byte(w))
}

func dlVal(p *curvePoint) []byte {
	out := make([]byte, 0, 40)
	out = dlPut64(out, p.y[0])
	for i := 3; i >= 0; i-- {
		out = dlPut64(out, p.x[i])
	}
	return out
}

func dlSet(p *curvePoint, v []byte, finite uint64) {
	p.y = gfP{dlBE64(v[0:8])}
	p.x = gfP{dlBE64(v[32:40]), dlBE64(v[24:32]), dlBE64(v[16:24]), dlBE64(v[8:16])}
	p.z = gfP{finite}
	p.t = gfP{finite}
}

func verifModel_dl_curvePointAddComplete(c, a, b *curvePoint) {
	fin := (a.z[0] | b.z[0]) & 1
	dlSet(c, verifWideAdd(dlVal(a), dlVal(b)), fin)
}

func verifModel_dl_curvePointDoubleComplete(c, a *curvePoint) {
	// 2v as a one-bit left shift of the 320-bit number (keeps the window arithmetic in shift/concat form)
	v := dlVal(a)
	d := make([]byte, 40)
	for i := 0; i < 40; i++ {
		d[i] = v[i] << 1
		if i+1 < 40 {
			d[i] |= v[i+1] >> 7
		}
	}
	dlSet(c, d, a.z[0]&1)
}

func verifModel_dl_SetInfinity(c *curvePoint) {
	c.x, c.y, c.z, c.t = gfP{}, gfP{}, gfP{}, gfP{}
}

func verifModel_dl_NewCurveGenerator() *curvePoint {
	return &curvePoint{x: gfP{1}, z: gfP{1}, t: gfP{1}}
}

// ScalarMult / ScalarBaseMult return exactly [k]P for every 32-byte scalar k, also when the receiver is
// the operand itself; the result is the point at infinity exactly for k = 0.
func verifH_c09_scalarmult() {
	which := verifParam("which") // 0: fresh receiver; 1: receiver aliases the operand; 2: base-point multiplication
	k := verifBytes("k", 32)
	if !verifSymbolic() {
		dlNative(which, k)
		verifReach("end")
		return
	}
	a := &G1{verifModel_dl_NewCurveGenerator()}
	var r *G1
	var err error
	switch which {
	case 0:
		r, err = new(G1).ScalarMult(a, k)
	case 1:
		r, err = a.ScalarMult(a, k)
	default:
		r, err = new(G1).ScalarBaseMult(k)
	}
	verifAssert(err == nil && r != nil, "a 32-byte scalar is accepted")
	want := append(make([]byte, 8), k...)
	verifAssert(verifWideEq(dlVal(r.p), want), "the result is exactly [k]P")
	zero := true
	for _, b := range k {
		zero = verifAll(zero, b == 0)
	}
	verifAssert((r.p.z[0] == 0) == zero, "the point at infinity exactly for k = 0")
	verifReach("end")
}

// native twin: the real group; aliased and fresh receivers agree with each other and with double-and-add
func dlNative(which int, k []byte) {
	p, err := new(G1).ScalarBaseMult([]byte{0, 0, 0, 0, 0, 0, 0, 0, 0, 0, 0, 0, 0, 0, 0, 0, 0, 0, 0, 0, 0, 0, 0, 0, 0, 0, 0, 0, 0, 0, 0, 7})
	if err != nil {
		return
	}
	ref := &G1{NewCurvePoint()}
	for _, b := range k {
		for bit := 7; bit >= 0; bit-- {
			ref.Double(ref)
			if b>>uint(bit)&1 == 1 {
				ref.Add(ref, p)
			}
		}
	}
	fresh, _ := new(G1).ScalarMult(p, k)
	verifAssert(verifEqBytes(fresh.Marshal(), ref.Marshal()), "ScalarMult agrees with double-and-add")
	q := new(G1).Set(p)
	q.ScalarMult(q, k)
	verifAssert(verifEqBytes(q.Marshal(), ref.Marshal()), "ScalarMult with the receiver as operand agrees with double-and-add")
	if which == 2 {
		g := &G1{NewCurvePoint()}
		for _, b := range k {
			for bit := 7; bit >= 0; bit-- {
				g.Double(g)
				if b>>uint(bit)&1 == 1 {
					g.Add(g, Gen1)
				}
			}
		}
		bm, _ := new(G1).ScalarBaseMult(k)
		verifAssert(verifEqBytes(bm.Marshal(), g.Marshal()), "ScalarBaseMult agrees with double-and-add")
	}
}

// ---- pairing wrapper: identity arguments -----------------------------------------------------------
// Miller loop and final exponentiation are uninterpreted functions of the operand coordinates; decided is
// the wrapper's treatment of the point at infinity: Pair(P, Q) = 1 whenever P or Q is the identity, and
// the exponentiated Miller value otherwise.

func verifPairArgs(q *twistPoint, p *curvePoint) []byte {
	out := make([]byte, 0, 12*32)
	for _, g := range []*gfP{&q.x.x, &q.x.y, &q.y.x, &q.y.y, &q.z.x, &q.z.y, &p.x, &p.y, &p.z} {
		out = verifGetGFp(out, g)
	}
	return out
}

func verifModel_miller(q *twistPoint, p *curvePoint) *gfP12 {
	e := &GT{}
	verifSetGT(e, verifUF("miller", 384, verifPairArgs(q, p)))
	return e.p
}

func verifModel_finalExponentiation(in *gfP12) *gfP12 {
	e := &GT{}
	verifSetGT(e, verifUF("finalexp", 384, VerifGTBytes(&GT{in})))
	return e.p
}

func verifH_c09_pair_identity() {
	which := verifParam("which") // 0: both finite; 1: G1 argument at infinity; 2: G2 argument at infinity; 3: both
	if !verifSymbolic() {
		one := new(GT).SetOne()
		k := verifBytes("k", 32)
		k[0] &= 0x3f
		k[31] |= 1
		p, _ := new(G1).ScalarBaseMult(k)
		q, _ := new(G2).ScalarBaseMult(k)
		zero := make([]byte, 32)
		p0, _ := new(G1).ScalarBaseMult(zero)
		q0, _ := new(G2).ScalarBaseMult(zero)
		verifAssert(verifEqBytes(Pair(p0, q).Marshal(), one.Marshal()), "e(O, Q) = 1")
		verifAssert(verifEqBytes(Pair(p, q0).Marshal(), one.Marshal()), "e(P, O) = 1")
		verifAssert(verifEqBytes(Pair(p0, q0).Marshal(), one.Marshal()), "e(O, O) = 1")
		verifAssert(!verifEqBytes(Pair(p, q).Marshal(), one.Marshal()), "e(P, Q) != 1 for non-identity arguments")
		verifReach("end")
		return
	}
	p, q := &curvePoint{}, &twistPoint{}
	for _, g := range []*gfP{&p.x, &p.y, &p.z, &q.x.x, &q.x.y, &q.y.x, &q.y.y, &q.z.x, &q.z.y} {
		verifPutGFp(g, verifBytes("coord", 32))
	}
	if which == 1 || which == 3 {
		p.z = gfP{}
	} else {
		verifAssume(p.z[0]|p.z[1]|p.z[2]|p.z[3] != 0)
	}
	if which == 2 || which == 3 {
		q.z = gfP2{}
	} else {
		verifAssume(q.z.x[0]|q.z.x[1]|q.z.x[2]|q.z.x[3]|q.z.y[0]|q.z.y[1]|q.z.y[2]|q.z.y[3] != 0)
	}
	want := verifUF("finalexp", 384, verifUF("miller", 384, verifPairArgs(q, p)))
	got := Pair(&G1{p}, &G2{q})
	if which == 0 {
		verifAssert(verifEqBytes(VerifGTBytes(got), want), "finite arguments: the exponentiated Miller value")
	} else {
		verifAssert(got.p.IsOne(), "an identity argument gives the identity of GT")
	}
	verifReach("end")
}

// ---- G2 drivers in the same exact-multiple model (value: x.y = low 256 bits, x.x[0] = high 64 bits) --------

func dl2Val(p *twistPoint) []byte {
	out := make([]byte, 0, 40)
	out = dlPut64(out, p.x.x[0])
	for i := 3; i >= 0; i-- {
		out = dlPut64(out, p.x.y[i])
	}
	return out
}

func dl2Set(p *twistPoint, v []byte, finite uint64) {
	p.x = gfP2{gfP{dlBE64(v[0:8])}, gfP{dlBE64(v[32:40]), dlBE64(v[24:32]), dlBE64(v[16:24]), dlBE64(v[8:16])}}
	p.y = gfP2{}
	p.z = gfP2{gfP{}, gfP{finite}}
	p.t = gfP2{gfP{}, gfP{finite}}
}

func verifModel_dl_twistPoint_Add(c *twistPoint, a, b *twistPoint) {
	fin := (a.z.y[0] | b.z.y[0]) & 1
	dl2Set(c, verifWideAdd(dl2Val(a), dl2Val(b)), fin)
}

func verifModel_dl_twistPoint_Double(c *twistPoint, a *twistPoint) {
	v := dl2Val(a)
	d := make([]byte, 40)
	for i := 0; i < 40; i++ {
		d[i] = v[i] << 1
		if i+1 < 40 {
			d[i] |= v[i+1] >> 7
		}
	}
	dl2Set(c, d, a.z.y[0]&1)
}

func verifModel_dl_twistPoint_SetInfinity(c *twistPoint) {
	c.x, c.y, c.z, c.t = gfP2{}, gfP2{}, gfP2{}, gfP2{}
}

func verifModel_dl_NewTwistGenerator() *twistPoint {
	return &twistPoint{x: gfP2{gfP{}, gfP{1}}, z: gfP2{gfP{}, gfP{1}}, t: gfP2{gfP{}, gfP{1}}}
}

func verifH_c09_scalarmult_g2() {
	which := verifParam("which") // 0: fresh receiver; 1: receiver aliases the operand; 2: base-point multiplication
	k := verifBytes("k", 32)
	if !verifSymbolic() {
		p, err := new(G2).ScalarBaseMult([]byte{0, 0, 0, 0, 0, 0, 0, 0, 0, 0, 0, 0, 0, 0, 0, 0, 0, 0, 0, 0, 0, 0, 0, 0, 0, 0, 0, 0, 0, 0, 0, 5})
		if err != nil {
			verifReach("end")
			return
		}
		base := p
		if which == 2 {
			base = Gen2
		}
		ref := &G2{NewTwistPoint()}
		for _, b := range k {
			for bit := 7; bit >= 0; bit-- {
				ref.p.Double(ref.p)
				if b>>uint(bit)&1 == 1 {
					ref.Add(ref, base)
				}
			}
		}
		var got *G2
		switch which {
		case 0:
			got, _ = new(G2).ScalarMult(p, k)
		case 1:
			got = new(G2).Set(p)
			got.ScalarMult(got, k)
		default:
			got, _ = new(G2).ScalarBaseMult(k)
		}
		verifAssert(verifEqBytes(got.Marshal(), ref.Marshal()), "G2 scalar multiplication agrees with double-and-add (fresh, aliased and base-point forms)")
		verifReach("end")
		return
	}
	a := &G2{verifModel_dl_NewTwistGenerator()}
	var r *G2
	var err error
	switch which {
	case 0:
		r, err = new(G2).ScalarMult(a, k)
	case 1:
		r, err = a.ScalarMult(a, k)
	default:
		r, err = new(G2).ScalarBaseMult(k)
	}
	verifAssert(err == nil && r != nil, "a 32-byte scalar is accepted")
	want := append(make([]byte, 8), k...)
	verifAssert(verifWideEq(dl2Val(r.p), want), "the result is exactly [k]Q")
	zero := true
	for _, b := range k {
		zero = verifAll(zero, b == 0)
	}
	verifAssert((r.p.z.y[0] == 0) == zero, "the point at infinity exactly for k = 0")
	verifReach("end")
}
