package xts

import "crypto/cipher"

// C03 (XTS): generic xtsEncrypter/xtsDecrypter over an uninterpreted block cipher (UF-E), with and
// without the concurrentBlocks batch path, against IEEE 1619 / GB/T 17964 written bit by bit.

type c03Block struct {
	key []byte
}

func (b *c03Block) BlockSize() int { return 16 }
func (b *c03Block) Encrypt(dst, src []byte) {
	copy(dst[:16], verifPerm("E", false, b.key, src[:16]))
}
func (b *c03Block) Decrypt(dst, src []byte) {
	copy(dst[:16], verifPerm("E", true, b.key, src[:16]))
}

// c03Conc additionally offers the batch interface with the contract of sm4CipherAsm: exactly
// Concurrency() blocks are processed, shorter buffers panic.
type c03Conc struct {
	c03Block
	conc int
}

func (b *c03Conc) Concurrency() int { return b.conc }
func (b *c03Conc) EncryptBlocks(dst, src []byte) {
	if len(src) < 16*b.conc || len(dst) < 16*b.conc {
		panic("c03Conc: short buffer")
	}
	for i := 0; i < b.conc; i++ {
		b.Encrypt(dst[16*i:], src[16*i:])
	}
}
func (b *c03Conc) DecryptBlocks(dst, src []byte) {
	if len(src) < 16*b.conc || len(dst) < 16*b.conc {
		panic("c03Conc: short buffer")
	}
	for i := 0; i < b.conc; i++ {
		b.Decrypt(dst[16*i:], src[16*i:])
	}
}

func c03Creator(conc int) func([]byte) (cipher.Block, error) {
	return func(key []byte) (cipher.Block, error) {
		k := append([]byte(nil), key...)
		if conc > 0 {
			return &c03Conc{c03Block{k}, conc}, nil
		}
		return &c03Block{k}, nil
	}
}

// ---- reference ----

// bit i of the tweak polynomial (coefficient of x^i): IEEE 1619 numbers bits little-endian inside
// little-endian bytes; GB/T 17964 uses the GCM convention (coefficient 0 is the top bit of byte 0).
func c03Bit(t []byte, i int, gb bool) byte {
	if gb {
		return (t[i/8] >> (7 - uint(i%8))) & 1
	}
	return (t[i/8] >> uint(i%8)) & 1
}

func c03SetBit(t []byte, i int, gb bool, v byte) {
	if gb {
		t[i/8] |= v << (7 - uint(i%8))
	} else {
		t[i/8] |= v << uint(i%8)
	}
}

// multiplication by x modulo x^128+x^7+x^2+x+1
func c03MulX(t []byte, gb bool) []byte {
	out := make([]byte, 16)
	carry := c03Bit(t, 127, gb)
	for i := 0; i < 128; i++ {
		var b byte
		if i > 0 {
			b = c03Bit(t, i-1, gb)
		}
		if i == 0 || i == 1 || i == 2 || i == 7 {
			b ^= carry
		}
		c03SetBit(out, i, gb, b)
	}
	return out
}

func c03Xor(a, b []byte) []byte {
	out := make([]byte, len(a))
	for i := range a {
		out[i] = a[i] ^ b[i]
	}
	return out
}

func c03EncBlock(k1, t, p []byte) []byte {
	return c03Xor(verifPerm("E", false, k1, c03Xor(p, t)), t)
}

// c03SpecEnc encrypts one data unit (or its continuation) starting at tweak value t; returns the
// ciphertext and the tweak after the processed full blocks.
func c03SpecEnc(k1, t, p []byte, gb bool) ([]byte, []byte) {
	n := len(p)
	full := n / 16
	rem := n % 16
	out := make([]byte, 0, n)
	var blocks [][]byte
	for j := 0; j < full; j++ {
		blocks = append(blocks, c03EncBlock(k1, t, p[16*j:16*j+16]))
		t = c03MulX(t, gb)
	}
	if rem > 0 {
		cc := blocks[full-1]
		pp := append(append([]byte(nil), p[16*full:]...), cc[rem:]...)
		blocks[full-1] = c03EncBlock(k1, t, pp)
		for _, b := range blocks {
			out = append(out, b...)
		}
		out = append(out, cc[:rem]...)
		return out, t
	}
	for _, b := range blocks {
		out = append(out, b...)
	}
	return out, t
}

// One or two successive CryptBlocks calls on one mode object; n1 (first call, whole blocks, may be 0)
// then n bytes.  dir 0: library encrypt equals the reference.  dir 1: library decrypt of the reference
// ciphertext gives back the plaintext.
func verifH_c03_xts() {
	gb := verifParam("gb") == 1
	dir := verifParam("dir")
	conc := verifParam("conc")
	n1, n := verifParam("n1"), verifParam("n")
	inplace := verifParam("inplace") == 1
	k1 := verifBytes("k1", 16)
	k2 := verifBytes("k2", 16)
	tweak := verifBytes("tweak", 16)
	p1 := verifBytes("p1", n1)
	p := verifBytes("p", n)
	t0 := verifPerm("E", false, k2, tweak)
	c1, t1 := c03SpecEnc(k1, t0, p1, gb)
	c, _ := c03SpecEnc(k1, t1, p, gb)
	var mode cipher.BlockMode
	var err error
	if dir == 0 {
		mode, err = NewXTSEncrypter(c03Creator(conc), k1, k2, tweak, gb)
	} else {
		mode, err = NewXTSDecrypter(c03Creator(conc), k1, k2, tweak, gb)
	}
	verifAssert(err == nil && mode.BlockSize() == 16, "constructor")
	in1, want1, in, want := p1, c1, p, c
	if dir == 1 {
		in1, want1, in, want = c1, p1, c, p
	}
	run := func(src, want []byte, what string) {
		src = append([]byte(nil), src...)
		var dst []byte
		canary := verifBytes("canary", 3)
		if inplace {
			buf := append(append([]byte(nil), src...), canary...)
			src = buf[:len(src)]
			dst = buf[:len(src)]
			mode.CryptBlocks(dst, src)
			verifAssert(verifEqBytes(buf[len(src):], canary), what+": bytes after dst[len(src)] untouched")
		} else {
			keep := append([]byte(nil), src...)
			buf := append(verifBytes("junk", len(src)), canary...)
			dst = buf[:len(src)]
			mode.CryptBlocks(buf, src) // dst longer than src is allowed
			verifAssert(verifEqBytes(buf[len(src):], canary), what+": bytes after dst[len(src)] untouched")
			verifAssert(verifEqBytes(src, keep), what+": source unchanged")
		}
		verifAssert(verifEqBytes(dst, want), what+": output equals the XTS definition")
	}
	if n1 > 0 {
		run(in1, want1, "first call")
	}
	run(in, want, "call")
	verifReach("end")
}

// mul2Generic/mul2 and doubleTweaks equal multiplication by x^k for every tweak value.
func verifH_c03_xts_mul2() {
	gb := verifParam("gb") == 1
	cnt := verifParam("count")
	t := verifBytes("t", 16)
	var a [16]byte
	copy(a[:], t)
	mul2(&a, gb)
	verifAssert(verifEqBytes(a[:], c03MulX(t, gb)), "mul2 is multiplication by x")
	var g [16]byte
	copy(g[:], t)
	mul2Generic(&g, gb)
	verifAssert(verifEqBytes(g[:], c03MulX(t, gb)), "mul2Generic is multiplication by x")
	var b [16]byte
	copy(b[:], t)
	tweaks := make([]byte, 16*cnt)
	doubleTweaks(&b, tweaks, gb)
	cur := append([]byte(nil), t...)
	for i := 0; i < cnt; i++ {
		verifAssert(verifEqBytes(tweaks[16*i:16*i+16], cur), "doubleTweaks block i is t*x^i")
		cur = c03MulX(cur, gb)
	}
	verifAssert(verifEqBytes(b[:], cur), "doubleTweaks advances the tweak by x^count")
	verifReach("end")
}

// Argument checks: short input, short output, tweak length.
func verifH_c03_xts_args() {
	dir := verifParam("dir")
	n := verifParam("n")
	dl := verifParam("dstlen")
	tl := verifParam("tweaklen")
	k := verifBytes("k", 16)
	tweak := verifBytes("tweak", tl)
	var mode cipher.BlockMode
	var err error
	if dir == 0 {
		mode, err = NewXTSEncrypter(c03Creator(0), k, k, tweak, false)
	} else {
		mode, err = NewXTSDecrypter(c03Creator(0), k, k, tweak, false)
	}
	verifAssert((err == nil) == (tl == 16), "tweak must be 16 bytes")
	if err == nil {
		src := verifBytes("src", n)
		dst := verifBytes("dst", dl)
		keep := append([]byte(nil), dst...)
		p := verifPanics(func() { mode.CryptBlocks(dst, src) })
		verifAssert(p == (n < 16 || dl < n), "CryptBlocks refuses short input/output by panicking, nothing else")
		if p {
			verifAssert(verifEqBytes(dst, keep), "refused call leaves dst untouched")
		}
	}
	verifReach("end")
}

// verifModel_mul2Generic: summary of mul2Generic justified by verifH_c03_xts_mul2 (enabled through a
// per-case override in the XTS data-path harness to avoid one fork per doubling).
func verifModel_mul2Generic(tweak *[blockSize]byte, isGB bool) {
	copy(tweak[:], c03MulX(tweak[:], isGB))
}
