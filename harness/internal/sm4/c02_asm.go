package sm4

// C02 (asm-wrappers configuration): single-block and batch entry points of sm4CipherAsm on every
// dispatch tier equal E / D of the key (kernels as contracts).

func verifH_c02_wrap_block() {
	tier, single := verifParam("tier"), verifParam("single") == 1
	inplace := verifParam("inplace") == 1
	key := verifBytes("key", 16)
	c := verifNewCipher(key, tier, single, false)
	x := verifBytes("x", 16)
	keep := append([]byte(nil), x...)
	dst := make([]byte, 18)
	dst[16], dst[17] = 0xAA, 0xBB
	if inplace {
		c.Encrypt(x, x)
		copy(dst, x)
	} else {
		c.Encrypt(dst, x)
		verifAssert(verifEqBytes(x, keep), "source unchanged")
	}
	e := c03E(key, keep)
	verifAssert(verifEqBytes(dst[:16], e) && dst[16] == 0xAA && dst[17] == 0xBB, "Encrypt = E(key, block), 16 bytes written")
	back := make([]byte, 16)
	c.Decrypt(back, e)
	verifAssert(verifEqBytes(back, keep), "Decrypt inverts Encrypt")
	verifReach("end")
}

// EncryptBlocks/DecryptBlocks: one batch or two batches, in place or not
func verifH_c02_wrap_blocks() {
	tier := verifParam("tier")
	nb := verifParam("batches")
	inplace := verifParam("inplace") == 1
	dec := verifParam("dec") == 1
	key := verifBytes("key", 16)
	c := verifNewCipher(key, tier, false, false)
	n := nb * c.Concurrency() * 16
	p := verifBytes("p", n)
	want := make([]byte, 0, n)
	for i := 0; i < n; i += 16 {
		want = append(want, c03E(key, p[i:i+16])...)
	}
	in, out := p, want
	if dec {
		in, out = want, p
	}
	src := append([]byte(nil), in...)
	dst := append(verifBytes("junk", n), 0xAA)
	if inplace {
		dst = append(append([]byte(nil), src...), 0xAA)
		src = dst[:n]
	}
	if dec {
		c.DecryptBlocks(dst[:n], src)
	} else {
		c.EncryptBlocks(dst[:n], src)
	}
	verifAssert(verifEqBytes(dst[:n], out) && dst[n] == 0xAA, "every block of the batch(es) is processed independently (ECB), nothing else written")
	verifReach("end")
}

func c02Setup() {
	supportSM4 = false
	supportsAES = true
	supportsGFMUL = verifParam("gfmul") == 1
	useAVX = true
	useAVX2 = verifParam("gfmul") == 1
	useAESNI4SingleBlock = false
}

func c02Register(b interface{}, key []byte) {
	switch c := b.(type) {
	case *sm4CipherGCM:
		verifRegister(&c.sm4CipherAsm, key)
	case *sm4CipherAsm:
		verifRegister(c, key)
	}
}
