package sm4

import "unsafe"

// Contract models of the amd64 assembly kernels of internal/sm4 (asm-wrappers configuration).
// The SM4 block function is an uninterpreted keyed permutation (UF-E) identified by the 16-byte key
// the round-key table was expanded from; which table (enc or dec) a kernel is handed decides the
// direction.  Contracts are written from the Go doc comments, the assembly prologues and the
// package's own tests; they are validated natively against the real assembly (see verifH_*_stub*).

type verifKeyReg struct {
	enc, dec *uint32
	key      []byte
}

var verifKeys []verifKeyReg

func verifRegister(c *sm4CipherAsm, key []byte) {
	verifKeys = append(verifKeys, verifKeyReg{&c.enc[0], &c.dec[0], append([]byte(nil), key...)})
}

// verifTable resolves a round-key pointer to (key, isDecryptTable).
func verifTable(xk *uint32) ([]byte, bool) {
	for _, r := range verifKeys {
		if xk == r.enc {
			return r.key, false
		}
		if xk == r.dec {
			return r.key, true
		}
	}
	panic("verif: kernel called with an unknown round-key table")
}

func verifBlock(xk *uint32, in []byte) []byte {
	key, dec := verifTable(xk)
	return verifPerm("SM4", dec, key, in[:16])
}

func verifModel_expandKeyAsm(key *byte, ck, enc, dec *uint32, inst int) {
	k := (*[16]byte)(unsafe.Pointer(key))[:]
	e := (*[32]uint32)(unsafe.Pointer(enc))
	d := (*[32]uint32)(unsafe.Pointer(dec))
	rk := verifUF("sm4rk", 128, k)
	for i := 0; i < 32; i++ {
		e[i] = uint32(rk[4*i])<<24 | uint32(rk[4*i+1])<<16 | uint32(rk[4*i+2])<<8 | uint32(rk[4*i+3])
	}
	for i := 0; i < 32; i++ {
		d[i] = e[31-i]
	}
}

func verifModel_encryptBlockAsm(xk *uint32, dst, src *byte, inst int) {
	s := (*[16]byte)(unsafe.Pointer(src))[:]
	d := (*[16]byte)(unsafe.Pointer(dst))[:]
	copy(d, verifBlock(xk, s))
}

// encryptBlockGo (pure Go, verified against GB/T 32907 by C02) is summarised by the same permutation.
func verifModel_encryptBlockGo(xk *[rounds]uint32, dst, src []byte) {
	_ = src[15]
	_ = dst[15]
	copy(dst[:16], verifBlock(&xk[0], src))
}

// encryptBlocksAsm: the number of blocks depends on the tier and on len(src) only
// (asm_amd64.s: SSE/AVX: 8 blocks iff len(src)==128 else 4; AVX2: 16 iff len(src)==256 else 8);
// it reads/writes 16*count bytes of src/dst whatever their lengths, so the footprint is asserted here.
func verifModel_encryptBlocksAsm(xk *uint32, dst, src []byte, inst int) {
	count := 4
	if useAVX2 {
		count = 8
		if len(src) == 256 {
			count = 16
		}
	} else if len(src) == 128 {
		count = 8
	}
	if len(src) < 16*count || len(dst) < 16*count {
		panic("verif: encryptBlocksAsm footprint exceeds the slices it was given")
	}
	out := make([]byte, 0, 16*count)
	for i := 0; i < count; i++ {
		out = append(out, verifBlock(xk, src[16*i:])...)
	}
	copy(dst, out)
}

// encryptSm4Ecb: ECB over len(src)/16 blocks.
func verifModel_encryptSm4Ecb(xk *uint32, dst, src []byte) {
	n := len(src) / 16
	if len(dst) < 16*n {
		panic("verif: encryptSm4Ecb footprint exceeds dst")
	}
	out := make([]byte, 0, 16*n)
	for i := 0; i < n; i++ {
		out = append(out, verifBlock(xk, src[16*i:])...)
	}
	copy(dst, out)
}

// decryptBlocksChain: CBC decryption of len(src) bytes (whole blocks) with iv[0:16]; afterwards
// iv = last ciphertext block; dst may alias src exactly.
func verifModel_decryptBlocksChain(xk *uint32, dst, src []byte, iv *byte) {
	ivb := (*[16]byte)(unsafe.Pointer(iv))[:]
	n := len(src) / 16
	if len(dst) < 16*n {
		panic("verif: decryptBlocksChain footprint exceeds dst")
	}
	prev := append([]byte(nil), ivb...)
	out := make([]byte, 0, 16*n)
	for i := 0; i < n; i++ {
		c := append([]byte(nil), src[16*i:16*i+16]...)
		p := verifBlock(xk, c)
		for j := range p {
			p[j] ^= prev[j]
		}
		out = append(out, p...)
		prev = c
	}
	copy(dst, out)
	copy(ivb, prev)
}
