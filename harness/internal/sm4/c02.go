package sm4

// C02 harnesses (pure Go SM4): T/T' functions, round structure and key schedule against GB/T 32907.

func c02RotL(x uint32, k uint) uint32 { return x<<k | x>>(32-k) }

// tau: the S-box applied to the four bytes (S-box table: the repository's copy, anchored to the standard
// by the standard's known-answer vectors incl. the 1,000,000-iteration one)
func c02Tau(x uint32) uint32 {
	return uint32(sbox[x>>24])<<24 | uint32(sbox[x>>16&0xff])<<16 | uint32(sbox[x>>8&0xff])<<8 | uint32(sbox[x&0xff])
}

// T = L o tau, L(B) = B ^ B<<<2 ^ B<<<10 ^ B<<<18 ^ B<<<24       (GB/T 32907 6.2)
func c02T(x uint32) uint32 {
	b := c02Tau(x)
	return b ^ c02RotL(b, 2) ^ c02RotL(b, 10) ^ c02RotL(b, 18) ^ c02RotL(b, 24)
}

// T' = L' o tau, L'(B) = B ^ B<<<13 ^ B<<<23                      (GB/T 32907 7.3)
func c02T2(x uint32) uint32 {
	b := c02Tau(x)
	return b ^ c02RotL(b, 13) ^ c02RotL(b, 23)
}

func verifH_c02_t() {
	x := verifU32("x")
	verifAssert(t(x) == c02T(x), "t = L o tau for every word")
	verifAssert(precompute_t(x) == c02T(x), "table-driven precompute_t = L o tau for every word")
	verifAssert(t2(x) == c02T2(x), "t2 = L' o tau for every word")
	verifReach("end")
}

// per-table lemma: each precomputed table is L applied to the S-box output in its byte lane; since L is
// linear over xor, precompute_t = L o tau follows for every word (the word-level query is in the thorough tier)
func verifH_c02_tables() {
	b := verifU8("b")
	l := func(x uint32) uint32 { return x ^ c02RotL(x, 2) ^ c02RotL(x, 10) ^ c02RotL(x, 18) ^ c02RotL(x, 24) }
	s := uint32(sbox[b])
	verifAssert(sbox_t0[b] == l(s<<24), "sbox_t0[b] = L(S(b) << 24)")
	verifAssert(sbox_t1[b] == l(s<<16), "sbox_t1[b] = L(S(b) << 16)")
	verifAssert(sbox_t2[b] == l(s<<8), "sbox_t2[b] = L(S(b) << 8)")
	verifAssert(sbox_t3[b] == l(s), "sbox_t3[b] = L(S(b))")
	x, y := verifU32("x"), verifU32("y")
	verifAssert(l(x^y) == l(x)^l(y), "L is linear over xor")
	w := verifU32("w")
	verifAssert(t(w) == c02T(w) && t2(w) == c02T2(w), "t = L o tau and t2 = L' o tau for every word")
	verifReach("end")
}

// uninterpreted T / T' (justified by verifH_c02_t), used by the structural harnesses
func c02UF(name string, x uint32) uint32 {
	r := verifUF(name, 4, []byte{byte(x >> 24), byte(x >> 16), byte(x >> 8), byte(x)})
	return uint32(r[0])<<24 | uint32(r[1])<<16 | uint32(r[2])<<8 | uint32(r[3])
}
func verifModel_t(in uint32) uint32 {
	if verifSymbolic() {
		return c02UF("T", in)
	}
	return c02T(in)
}
func verifModel_t2(in uint32) uint32 {
	if verifSymbolic() {
		return c02UF("T2", in)
	}
	return c02T2(in)
}

func c02Word(b []byte) uint32 {
	return uint32(b[0])<<24 | uint32(b[1])<<16 | uint32(b[2])<<8 | uint32(b[3])
}

// GB/T 32907 6.1: 32 rounds X_{i+4} = X_i ^ T(X_{i+1}^X_{i+2}^X_{i+3}^rk_i), output (X35,X34,X33,X32)
func c02Crypt(rk *[32]uint32, in []byte) []byte {
	var x [36]uint32
	for i := 0; i < 4; i++ {
		x[i] = c02Word(in[4*i:])
	}
	for i := 0; i < 32; i++ {
		x[i+4] = x[i] ^ verifModel_t(x[i+1]^x[i+2]^x[i+3]^rk[i])
	}
	out := make([]byte, 16)
	for i := 0; i < 4; i++ {
		w := x[35-i]
		out[4*i], out[4*i+1], out[4*i+2], out[4*i+3] = byte(w>>24), byte(w>>16), byte(w>>8), byte(w)
	}
	return out
}

var c02FK = [4]uint32{0xA3B1BAC6, 0x56AA3350, 0x677D9197, 0xB27022DC}

// CK_i: byte j is (4i+j)*7 mod 256   (GB/T 32907 7.3)
func c02CK(i int) uint32 {
	var w uint32
	for j := 0; j < 4; j++ {
		w = w<<8 | uint32(byte((4*i+j)*7))
	}
	return w
}

func c02Expand(key []byte) [32]uint32 {
	var k [36]uint32
	for i := 0; i < 4; i++ {
		k[i] = c02Word(key[4*i:]) ^ c02FK[i]
	}
	var rk [32]uint32
	for i := 0; i < 32; i++ {
		k[i+4] = k[i] ^ verifModel_t2(k[i+1]^k[i+2]^k[i+3]^c02CK(i))
		rk[i] = k[i+4]
	}
	return rk
}

func verifH_c02_enc() {
	var rk [32]uint32
	for i := range rk {
		rk[i] = verifU32("rk")
	}
	src := verifBytes("src", 16)
	keep := append([]byte(nil), src...)
	inplace := verifParam("inplace") == 1
	dst := make([]byte, 16)
	if inplace {
		dst = src
	}
	encryptBlockGo(&rk, dst, src)
	verifAssert(verifEqBytes(dst, c02Crypt(&rk, keep)), "encryptBlockGo = the 32-round structure of GB/T 32907")
	// the same structure with the round keys reversed inverts it
	var rev [32]uint32
	for i := range rk {
		rev[i] = rk[31-i]
	}
	back := make([]byte, 16)
	encryptBlockGo(&rev, back, dst)
	verifAssert(verifEqBytes(back, keep), "decryption (reversed round keys) inverts encryption for every key schedule")
	verifReach("end")
}

func verifH_c02_expand() {
	key := verifBytes("key", 16)
	var enc, dec [32]uint32
	expandKeyGo(key, &enc, &dec)
	want := c02Expand(key)
	verifAssert(enc == want, "expandKeyGo = key schedule of GB/T 32907 (FK, CK_i = ((4i+j)*7 mod 256))")
	for i := 0; i < 32; i++ {
		verifAssert(dec[i] == enc[31-i], "dec is enc reversed")
	}
	verifReach("end")
}

// constants used by the library equal the standard's
func verifH_c02_consts() {
	for i := 0; i < 4; i++ {
		verifAssert(fk[i] == c02FK[i], "FK")
	}
	for i := 0; i < 32; i++ {
		verifAssert(ck[i] == c02CK(i), "CK")
	}
	verifReach("end")
}

// NewCipher: exactly 16-byte keys; Encrypt/Decrypt argument checks
func verifH_c02_api() {
	kl := verifParam("keylen")
	key := verifBytes("key", kl)
	c02Setup()
	c, err := NewCipher(key)
	verifAssert((err == nil) == (kl == 16), "NewCipher accepts exactly 16-byte keys")
	if err != nil {
		_, isKS := err.(KeySizeError)
		verifAssert(isKS && c == nil, "other lengths are rejected with KeySizeError")
	} else {
		verifAssert(c.BlockSize() == 16, "BlockSize")
		c02Register(c, key)
		sl, dl := verifParam("srclen"), verifParam("dstlen")
		src, dst := verifBytes("src", sl), verifBytes("dst", dl)
		p := verifPanics(func() { c.Encrypt(dst, src) })
		verifAssert(p == (sl < 16 || dl < 16), "Encrypt panics exactly on short buffers")
		p = verifPanics(func() { c.Decrypt(dst, src) })
		verifAssert(p == (sl < 16 || dl < 16), "Decrypt panics exactly on short buffers")
	}
	verifReach("end")
}
