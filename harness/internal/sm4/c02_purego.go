package sm4

func c02Setup()                                {}
func c02Register(c interface{}, key []byte) {}
