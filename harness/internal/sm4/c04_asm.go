package sm4

import (
	"crypto/cipher"
	"unsafe"
)

// C04 (GCM, asm-wrappers configuration): the table-driven Go GCM (gcm in gcm_cipher_asm.go, used
// without PCLMULQDQ) and the Go wrapper around the fused assembly (gcmAsm in sm4_gcm_asm.go), against
// SP 800-38D over UF-E, with multiplication by the hash key H in GF(2^128) as an uninterpreted
// function (mulH).

func c04GfMul(h, y []byte) []byte {
	if verifSymbolic() {
		return verifUF("gfmul", 16, h, y)
	}
	return c04GfMulBits(h, y)
}

// bit-by-bit GF(2^128) multiplication, SP 800-38D algorithm 1 (native replay / lemma)
func c04GfMulBits(x, y []byte) []byte {
	z := make([]byte, 16)
	v := append([]byte(nil), y...)
	for i := 0; i < 128; i++ {
		bit := (x[i/8] >> (7 - uint(i%8))) & 1
		m := -bit
		for j := 0; j < 16; j++ {
			z[j] ^= v[j] & m
		}
		lsb := v[15] & 1
		for j := 15; j > 0; j-- {
			v[j] = v[j]>>1 | v[j-1]<<7
		}
		v[0] >>= 1
		v[0] ^= 0xe1 & -lsb
	}
	return z
}

func c04Xor(a, b []byte) []byte {
	out := make([]byte, len(a))
	for i := range a {
		out[i] = a[i] ^ b[i]
	}
	return out
}

// GHASH state update: y = (y xor block)*H over the zero-padded blocks of data
func c04GhashUpdate(h, y, data []byte) []byte {
	for len(data) > 0 {
		blk := make([]byte, 16)
		n := copy(blk, data)
		data = data[n:]
		y = c04GfMul(h, c04Xor(y, blk))
	}
	return y
}

func c04LenBlock(a, c uint64) []byte {
	out := make([]byte, 16)
	a *= 8
	c *= 8
	for i := 0; i < 8; i++ {
		out[7-i] = byte(a >> (8 * uint(i)))
		out[15-i] = byte(c >> (8 * uint(i)))
	}
	return out
}

func c04Inc32(cb []byte) []byte {
	out := append([]byte(nil), cb...)
	v := uint32(cb[12])<<24 | uint32(cb[13])<<16 | uint32(cb[14])<<8 | uint32(cb[15])
	v++
	out[12], out[13], out[14], out[15] = byte(v>>24), byte(v>>16), byte(v>>8), byte(v)
	return out
}

// ---- models of the Go field arithmetic (table-driven path) ----

func c04FE(x *gcmFieldElement) []byte {
	out := make([]byte, 16)
	for i := 0; i < 8; i++ {
		out[i] = byte(x.low >> (56 - 8*uint(i)))
		out[8+i] = byte(x.high >> (56 - 8*uint(i)))
	}
	return out
}

func c04BE64(b []byte) uint64 {
	return uint64(b[0])<<56 | uint64(b[1])<<48 | uint64(b[2])<<40 | uint64(b[3])<<32 | uint64(b[4])<<24 | uint64(b[5])<<16 | uint64(b[6])<<8 | uint64(b[7])
}

// (*gcm).mul: y = y*H, H = productTable[8]
func verifModel_gcm_mul(g *gcm, y *gcmFieldElement) {
	r := c04GfMul(c04FE(&g.productTable[8]), c04FE(y))
	y.low, y.high = c04BE64(r[:8]), c04BE64(r[8:])
}

func verifModel_gcmDouble(x *gcmFieldElement) (double gcmFieldElement) {
	double.high = x.high>>1 | x.low<<63
	double.low = x.low>>1 ^ (0xe100000000000000 & -(x.high & 1))
	return
}

func verifH_c04_gcm_double() {
	x := gcmFieldElement{verifU64("lo"), verifU64("hi")}
	a := gcmDouble(&x)
	b := verifModel_gcmDouble(&x)
	verifAssert(a.low == b.low && a.high == b.high, "gcmDouble equals its branch-free summary")
	one := make([]byte, 16)
	one[0] = 0x40
	verifAssert(verifEqBytes(c04FE(&a), c04GfMulBits(one, c04FE(&x))), "gcmDouble is multiplication by x")
	verifReach("end")
}

// ---- contracts of the fused kernels ----
// productTable: the contract keeps H in its first 16 bytes (the real layout is private to the assembly).

func verifModel_gcmSm4Init(productTable *[256]byte, rk []uint32, inst int) {
	h := verifBlock(&rk[0], make([]byte, 16))
	copy(productTable[:16], h)
}

func verifModel_gcmSm4Data(productTable *[256]byte, data []byte, T *[16]byte) {
	copy(T[:], c04GhashUpdate(productTable[:16], append([]byte(nil), T[:]...), data))
}

func verifModel_gcmSm4Finish(productTable *[256]byte, tagMask, T *[16]byte, pLen, dLen uint64) {
	y := c04GfMul(productTable[:16], c04Xor(T[:], c04LenBlock(dLen, pLen)))
	copy(T[:], c04Xor(y, tagMask[:]))
}

func verifGcmCrypt(productTable *[256]byte, dst, src []byte, ctr, T *[16]byte, rk []uint32, enc bool) {
	n := len(src)
	if len(dst) < n {
		panic("verif: fused GCM kernel footprint exceeds dst")
	}
	in := append([]byte(nil), src...)
	out := make([]byte, n)
	cb := append([]byte(nil), ctr[:]...)
	for i := 0; i < n; i += 16 {
		cb = c04Inc32(cb)
		ks := verifBlock(&rk[0], cb)
		for j := i; j < n && j < i+16; j++ {
			out[j] = in[j] ^ ks[j-i]
		}
	}
	ct := out
	if !enc {
		ct = in
	}
	copy(T[:], c04GhashUpdate(productTable[:16], append([]byte(nil), T[:]...), ct))
	copy(dst, out)
	copy(ctr[:], cb)
}

func verifModel_gcmSm4Enc(productTable *[256]byte, dst, src []byte, ctr, T *[16]byte, rk []uint32) {
	verifGcmCrypt(productTable, dst, src, ctr, T, rk, true)
}

func verifModel_gcmSm4Dec(productTable *[256]byte, dst, src []byte, ctr, T *[16]byte, rk []uint32) {
	verifGcmCrypt(productTable, dst, src, ctr, T, rk, false)
}

var _ = unsafe.Pointer(nil)

// ---- reference ----

func c04J0(key, h, nonce []byte) []byte {
	if len(nonce) == 12 {
		return append(append([]byte(nil), nonce...), 0, 0, 0, 1)
	}
	y := c04GhashUpdate(h, make([]byte, 16), nonce)
	return c04GfMul(h, c04Xor(y, c04LenBlock(0, uint64(len(nonce)))))
}

func c04GCTR(key, cb, in []byte) []byte {
	out := make([]byte, len(in))
	for i := 0; i < len(in); i += 16 {
		ks := c03E(key, cb)
		for j := i; j < len(in) && j < i+16; j++ {
			out[j] = in[j] ^ ks[j-i]
		}
		cb = c04Inc32(cb)
	}
	return out
}

func c04Tag(key, h, j0, aad, ct []byte) []byte {
	y := c04GhashUpdate(h, make([]byte, 16), aad)
	y = c04GhashUpdate(h, y, ct)
	s := c04GfMul(h, c04Xor(y, c04LenBlock(uint64(len(aad)), uint64(len(ct)))))
	return c04Xor(s, c03E(key, j0))
}

func c04NewGCM(key []byte, tier int, fused bool, ns, ts int) cipher.AEAD {
	c := verifNewCipher(key, tier, false, fused)
	var a cipher.AEAD
	var err error
	if fused {
		g := &sm4CipherGCM{*c}
		verifRegister(&g.sm4CipherAsm, key)
		a, err = g.NewGCM(ns, ts)
	} else {
		a, err = c.NewGCM(ns, ts)
	}
	verifAssert(err == nil && a.NonceSize() == ns && a.Overhead() == ts, "NewGCM")
	return a
}

func verifH_c04_gcm_seal() {
	tier, fused := verifParam("tier"), verifParam("fused") == 1
	ns, ts, n, alen := verifParam("ns"), verifParam("ts"), verifParam("n"), verifParam("alen")
	plen, spare := verifParam("prefix"), verifParam("spare")
	key := verifBytes("key", 16)
	nonce := verifBytes("nonce", ns)
	msg := verifBytes("msg", n)
	aad := verifBytes("aad", alen)
	keepM, keepA, keepN := append([]byte(nil), msg...), append([]byte(nil), aad...), append([]byte(nil), nonce...)
	a := c04NewGCM(key, tier, fused, ns, ts)
	dst := verifBytesCap("dst", plen, plen+spare)
	keepD := append([]byte(nil), dst...)
	out := a.Seal(dst, nonce, msg, aad)
	verifAssert(len(out) == plen+n+ts && verifEqBytes(out[:plen], keepD), "Seal only appends to dst")
	verifAssert(verifEqBytes(msg, keepM) && verifEqBytes(aad, keepA) && verifEqBytes(nonce, keepN), "inputs not modified")
	h := c03E(key, make([]byte, 16))
	j0 := c04J0(key, h, keepN)
	ct := c04GCTR(key, c04Inc32(j0), keepM)
	tag := c04Tag(key, h, j0, keepA, ct)
	verifAssert(verifEqBytes(out[plen:plen+n], ct), "ciphertext = GCTR(inc32(J0), P)")
	verifAssert(verifEqBytes(out[plen+n:], tag[:ts]), "tag = MSB_t(GHASH(A,C) xor E(J0))")
	back, err := a.Open(nil, nonce, out[plen:], aad)
	verifAssert(err == nil && verifEqBytes(back, keepM), "Open(Seal(m)) == m")
	verifReach("end")
}

func verifH_c04_gcm_open() {
	tier, fused := verifParam("tier"), verifParam("fused") == 1
	ns, ts, n, alen := verifParam("ns"), verifParam("ts"), verifParam("n"), verifParam("alen")
	plen := verifParam("prefix")
	key := verifBytes("key", 16)
	nonce := verifBytes("nonce", ns)
	ct := verifBytes("ct", n+ts)
	aad := verifBytes("aad", alen)
	keepC := append([]byte(nil), ct...)
	a := c04NewGCM(key, tier, fused, ns, ts)
	buf := verifBytesCap("dst", plen, plen+n+3)
	keepD := append([]byte(nil), buf[:plen+n+3]...)
	out, err := a.Open(buf, nonce, ct, aad)
	h := c03E(key, make([]byte, 16))
	j0 := c04J0(key, h, nonce)
	p := c04GCTR(key, c04Inc32(j0), keepC[:n])
	tag := c04Tag(key, h, j0, aad, keepC[:n])
	full := buf[:plen+n+3]
	if err == nil {
		verifAssert(verifEqBytes(tag[:ts], keepC[n:]), "accepted only if the recomputed tag equals the received tag")
		verifAssert(len(out) == plen+n && verifEqBytes(out[:plen], keepD[:plen]) && verifEqBytes(out[plen:], p), "plaintext appended to dst")
	} else {
		verifAssert(!verifEqBytes(tag[:ts], keepC[n:]), "refused only if the tags differ")
		verifAssert(out == nil, "no plaintext is returned on failure")
		verifAssert(verifEqBytes(full[plen:plen+n], make([]byte, n)), "the output region is zeroed on failure")
		verifAssert(verifEqBytes(full[:plen], keepD[:plen]), "dst prefix untouched on failure")
	}
	verifAssert(verifEqBytes(full[plen+n:], keepD[plen+n:]), "bytes after the output region untouched")
	verifAssert(verifEqBytes(ct, keepC), "ciphertext not modified")
	verifReach("end")
}

// gcmInc32 is the 32-bit increment of the last four bytes for every counter block (lemma); the data-path
// harnesses then use this branch-free summary.
func verifModel_gcmInc32(counterBlock *[16]byte) {
	copy(counterBlock[:], c04Inc32(counterBlock[:]))
}

func verifH_c04_gcm_inc32() {
	cb := verifBytes("cb", 16)
	var a [16]byte
	copy(a[:], cb)
	gcmInc32(&a)
	verifAssert(verifEqBytes(a[:], c04Inc32(cb)), "gcmInc32 increments the last 32 bits modulo 2^32 and nothing else")
	verifReach("end")
}
