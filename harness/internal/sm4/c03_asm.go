package sm4

import "crypto/cipher"

// C03 (asm-wrappers configuration): the Go code around the SM4 assembly kernels — CTR keystream
// buffering and counter arithmetic, CBC chaining and IV carry, ECB — with the kernels replaced by
// their contracts (models_asm.go).

// verifNewCipher builds the cipher through the real constructor under the given dispatch tier.
// tier: 0 SSE, 1 AVX, 2 AVX2; single: useAESNI4SingleBlock; gfmul: supportsGFMUL.
func verifNewCipher(key []byte, tier int, single, gfmul bool) *sm4CipherAsm {
	supportSM4 = false
	supportsAES = true
	supportsGFMUL = gfmul
	useAVX = tier >= 1
	useAVX2 = tier == 2
	useAESNI4SingleBlock = single
	b, err := newCipher(key)
	verifAssert(err == nil, "newCipher")
	var c *sm4CipherAsm
	if g, ok := b.(*sm4CipherGCM); ok {
		c = &g.sm4CipherAsm
	} else {
		c = b.(*sm4CipherAsm)
	}
	verifRegister(c, key)
	verifAssert(c.blocksSize == 16*c.Concurrency(), "batch size consistent")
	return c
}

// c03E is the SM4 block function: symbolically the uninterpreted permutation the kernel contracts use,
// natively (replay) the real pure-Go SM4, so that a replay compares the real assembly paths with the
// textbook mode over real SM4.
func c03E(key, x []byte) []byte {
	if verifSymbolic() {
		return verifPerm("SM4", false, key, x)
	}
	var enc, dec [rounds]uint32
	expandKeyGo(key, &enc, &dec)
	out := make([]byte, 16)
	encryptBlockGo(&enc, out, x)
	return out
}

// branch-free twin of (*ctr).genCtr (equivalence for every counter value: verifH_c03_genctr)
func verifModel_genCtr(x *ctr, start int) {
	if start >= BlockSize {
		copy(x.ctr[start:], x.ctr[start-BlockSize:start])
	} else {
		copy(x.ctr[0:], x.ctr[len(x.ctr)-BlockSize:])
	}
	buffer := x.ctr[start : start+BlockSize]
	c := uint16(1)
	for i := BlockSize - 1; i >= 0; i-- {
		s := uint16(buffer[i]) + c
		buffer[i] = byte(s)
		c = s >> 8
	}
}

// counter block IV + j (mod 2^128), computed on two 64-bit words
func c03CtrBlock(iv []byte, j uint64) []byte {
	var hi, lo uint64
	for i := 0; i < 8; i++ {
		hi = hi<<8 | uint64(iv[i])
		lo = lo<<8 | uint64(iv[8+i])
	}
	lo2 := lo + j
	var carry uint64
	carry = verifIteU64(lo2 < lo, 1, 0)
	hi2 := hi + carry
	out := make([]byte, 16)
	for i := 0; i < 8; i++ {
		out[i] = byte(hi2 >> (56 - 8*uint(i)))
		out[8+i] = byte(lo2 >> (56 - 8*uint(i)))
	}
	return out
}

// big-endian increment by one, carry propagated byte by byte
func c03Inc(b []byte) []byte {
	out := append([]byte(nil), b...)
	c := uint16(1)
	for i := 15; i >= 0; i-- {
		s := uint16(out[i]) + c
		out[i] = byte(s)
		c = s >> 8
	}
	return out
}

func verifH_c03_genctr() {
	tier := verifParam("tier")
	start := verifParam("start")
	key := verifBytes("key", 16)
	c := verifNewCipher(key, tier, false, false)
	a := &ctr{b: c, ctr: verifBytes("ctr", c.blocksSize)}
	b := &ctr{b: c, ctr: append([]byte(nil), a.ctr...)}
	var prev []byte
	if start >= 16 {
		prev = append([]byte(nil), a.ctr[start-16:start]...)
	} else {
		prev = append([]byte(nil), a.ctr[len(a.ctr)-16:]...)
	}
	a.genCtr(16 * (start / 16))
	verifModel_genCtr(b, 16*(start/16))
	verifAssert(verifEqBytes(a.ctr, b.ctr), "genCtr equals its branch-free summary")
	s := 16 * (start / 16)
	verifAssert(verifEqBytes(a.ctr[s:s+16], c03CtrBlock(prev, 1)), "genCtr writes predecessor+1 mod 2^128")
	verifAssert(verifEqBytes(c03Inc(prev), c03CtrBlock(prev, 1)), "reference increment is +1 mod 2^128")
	verifReach("end")
}

// CTR: any partition into up to three XORKeyStream calls equals src xor E(IV+j), for symbolic IV.
func verifH_c03_ctr() {
	tier := verifParam("tier")
	single := verifParam("single") == 1
	n1, n2, n3 := verifParam("n1"), verifParam("n2"), verifParam("n3")
	inplace := verifParam("inplace") == 1
	key := verifBytes("key", 16)
	iv := verifBytes("iv", 16)
	ivKeep := append([]byte(nil), iv...)
	c := verifNewCipher(key, tier, single, false)
	s := c.NewCTR(iv)
	total := n1 + n2 + n3
	src := verifBytes("src", total)
	// reference keystream: counter block j+1 = counter block j + 1 mod 2^128 (c03Inc; that this byte-wise
	// increment is +1 on the 128-bit integer is verifH_c03_genctr's second assertion)
	want := make([]byte, total)
	cb := append([]byte(nil), ivKeep...)
	for j := 0; 16*j < total; j++ {
		if j > 0 {
			cb = c03Inc(cb)
		}
		ks := c03E(key, cb)
		for i := 16 * j; i < total && i < 16*j+16; i++ {
			want[i] = src[i] ^ ks[i-16*j]
		}
	}
	off := 0
	for _, n := range []int{n1, n2, n3} {
		part := append([]byte(nil), src[off:off+n]...)
		canary := verifBytes("canary", 2)
		if inplace {
			buf := append(append([]byte(nil), part...), canary...)
			s.XORKeyStream(buf[:n], buf[:n])
			verifAssert(verifEqBytes(buf[n:], canary), "bytes after dst[len(src)] untouched")
			verifAssert(verifEqBytes(buf[:n], want[off:off+n]), "output is src xor E(IV+j)")
		} else {
			buf := append(verifBytes("junk", n), canary...)
			s.XORKeyStream(buf, part)
			verifAssert(verifEqBytes(buf[n:], canary), "bytes after dst[len(src)] untouched")
			verifAssert(verifEqBytes(buf[:n], want[off:off+n]), "output is src xor E(IV+j)")
		}
		off += n
	}
	verifAssert(verifEqBytes(iv, ivKeep), "caller's IV not modified")
	verifReach("end")
}

// CBC through the asm wrapper: n1 then n2 blocks, encrypt and decrypt, optional SetIV between calls.
func verifH_c03_cbc() {
	tier := verifParam("tier")
	single := verifParam("single") == 1
	dir := verifParam("dir")
	n1, n2 := verifParam("n1"), verifParam("n2")
	inplace := verifParam("inplace") == 1
	setiv := verifParam("setiv") == 1
	key := verifBytes("key", 16)
	iv := verifBytes("iv", 16)
	ivKeep := append([]byte(nil), iv...)
	iv2 := verifBytes("iv2", 16)
	c := verifNewCipher(key, tier, single, false)
	p := verifBytes("p", 16*(n1+n2))
	// textbook CBC encryption; with SetIV the second part restarts from iv2
	want := make([]byte, 0, len(p))
	prev := ivKeep
	for i := 0; i < n1+n2; i++ {
		if setiv && i == n1 {
			prev = iv2
		}
		x := make([]byte, 16)
		for j := range x {
			x[j] = p[16*i+j] ^ prev[j]
		}
		ct := c03E(key, x)
		want = append(want, ct...)
		prev = ct
	}
	var m cipher.BlockMode
	if dir == 0 {
		m = c.NewCBCEncrypter(iv)
	} else {
		m = c.NewCBCDecrypter(iv)
	}
	in, out := p, want
	if dir == 1 {
		in, out = want, p
	}
	run := func(src, want []byte, what string) {
		src = append([]byte(nil), src...)
		canary := verifBytes("canary", 2)
		var buf []byte
		if inplace {
			buf = append(append([]byte(nil), src...), canary...)
			m.CryptBlocks(buf[:len(src)], buf[:len(src)])
		} else {
			buf = append(verifBytes("junk", len(src)), canary...)
			m.CryptBlocks(buf, src)
		}
		verifAssert(verifEqBytes(buf[len(src):], canary), what+": bytes after dst[len(src)] untouched")
		verifAssert(verifEqBytes(buf[:len(src)], want), what+": output equals CBC")
		// the caller may reuse its buffers afterwards: overwrite them
		for i := range buf {
			buf[i] = 0xEE
		}
		for i := range src {
			src[i] = 0xDD
		}
	}
	run(in[:16*n1], out[:16*n1], "first call")
	if setiv {
		m.(interface{ SetIV([]byte) }).SetIV(iv2)
	}
	run(in[16*n1:], out[16*n1:], "second call")
	verifAssert(verifEqBytes(iv, ivKeep), "caller's IV not modified")
	verifReach("end")
}

func verifH_c03_ecb_asm() {
	tier := verifParam("tier")
	dir := verifParam("dir")
	n := verifParam("n")
	inplace := verifParam("inplace") == 1
	key := verifBytes("key", 16)
	c := verifNewCipher(key, tier, false, false)
	p := verifBytes("p", 16*n)
	want := make([]byte, 0, len(p))
	for i := 0; i < n; i++ {
		want = append(want, c03E(key, p[16*i:16*i+16])...)
	}
	var m cipher.BlockMode
	in, out := p, want
	if dir == 0 {
		m = c.NewECBEncrypter()
	} else {
		m = c.NewECBDecrypter()
		in, out = want, p
	}
	src := append([]byte(nil), in...)
	canary := verifBytes("canary", 2)
	var buf []byte
	if inplace {
		buf = append(append([]byte(nil), src...), canary...)
		m.CryptBlocks(buf[:len(src)], buf[:len(src)])
	} else {
		buf = append(verifBytes("junk", len(src)), canary...)
		m.CryptBlocks(buf, src)
	}
	verifAssert(verifEqBytes(buf[len(src):], canary), "bytes after dst[len(src)] untouched")
	verifAssert(verifEqBytes(buf[:len(src)], out), "output equals ECB")
	verifReach("end")
}
