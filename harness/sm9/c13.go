package sm9

// C13 (sm9): hand-written decoders on hostile bytes — an error or a value, never a panic.  Inputs are
// bounded so that no decoding can get as far as curve/pairing code (which is outside the technique).

// parseSignature on every byte string of length n
func verifH_c13_sm9_parsesig() {
	n := verifParam("n")
	b := verifBytes("sig", n)
	h, s, err := parseSignature(b)
	if err == nil {
		verifAssert(len(s) > 0 && s[0] == 4 && h != nil, "an accepted signature carries an uncompressed point")
		verifReach("accepted")
	}
	verifReach("end")
}

// raw Decrypt on a ciphertext too short to hold C1||C3||C2
func verifH_c13_sm9_decrypt_short() {
	n := verifParam("n")
	ct := verifBytes("ct", n)
	pt, err := Decrypt(nil, []byte("uid"), ct, nil)
	verifAssert(err != nil && pt == nil, "a ciphertext of at most 96 bytes is refused with an error")
	verifReach("end")
}

// the six ASN.1 key decoders on every byte string of 0..3 bytes (too short to carry a point or a scalar
// that would reach group arithmetic)
func verifH_c13_sm9_unmarshal() {
	which, n := verifParam("which"), verifParam("n")
	der := verifBytes("der", n)
	var err error
	switch which {
	case 0:
		_, err = UnmarshalSignMasterPublicKeyASN1(der)
	case 1:
		_, err = UnmarshalSignPrivateKeyASN1(der)
	case 2:
		_, err = UnmarshalEncryptMasterPublicKeyASN1(der)
	case 3:
		_, err = UnmarshalEncryptPrivateKeyASN1(der)
	case 4:
		if n < 3 {
			_, err = UnmarshalSignMasterPrivateKeyASN1(der)
		}
	default:
		if n < 3 {
			_, err = UnmarshalEncryptMasterPrivateKeyASN1(der)
		}
	}
	verifAssert(err != nil || (which >= 4 && n >= 3), "inputs this short are refused with an error")
	verifReach("end")
}
