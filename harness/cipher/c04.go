package cipher

import (
	goCipher "crypto/cipher"
)

// C04 (CCM): Seal/Open against RFC 3610 over an uninterpreted block cipher (UF-E).

func c04Flags(adata bool, m, l int) byte {
	f := byte(0)
	if adata {
		f = 64
	}
	return f | byte((m-2)/2)<<3 | byte(l-1)
}

func c04BE(v uint64, n int) []byte {
	out := make([]byte, n)
	for i := 0; i < n; i++ {
		out[n-1-i] = byte(v >> (8 * uint(i)))
	}
	return out
}

// RFC 3610 2.2: authentication field T (full block X_{n+1})
func c04Auth(key, nonce, msg, aad []byte, m int) []byte {
	l := 15 - len(nonce)
	b0 := append([]byte{c04Flags(len(aad) > 0, m, l)}, nonce...)
	b0 = append(b0, c04BE(uint64(len(msg)), l)...)
	var blocks []byte
	if la := len(aad); la > 0 {
		switch {
		case la < 0xff00:
			blocks = append(blocks, c04BE(uint64(la), 2)...)
		case uint64(la) < 1<<32:
			blocks = append(blocks, 0xff, 0xfe)
			blocks = append(blocks, c04BE(uint64(la), 4)...)
		default:
			blocks = append(blocks, 0xff, 0xff)
			blocks = append(blocks, c04BE(uint64(la), 8)...)
		}
		blocks = append(blocks, aad...)
		for len(blocks)%16 != 0 {
			blocks = append(blocks, 0)
		}
	}
	blocks = append(blocks, msg...)
	for len(blocks)%16 != 0 {
		blocks = append(blocks, 0)
	}
	x := c03E(key, b0)
	for i := 0; i < len(blocks); i += 16 {
		x = c03E(key, c03Xor(x, blocks[i:i+16]))
	}
	return x
}

// key stream block S_i = E(A_i)
func c04S(key, nonce []byte, i uint64) []byte {
	l := 15 - len(nonce)
	a := append([]byte{byte(l - 1)}, nonce...)
	a = append(a, c04BE(i, l)...)
	return c03E(key, a)
}

func c04Crypt(key, nonce, in []byte) []byte {
	out := make([]byte, len(in))
	for i := range in {
		s := c04S(key, nonce, uint64(i/16+1))
		out[i] = in[i] ^ s[i%16]
	}
	return out
}

func c04New(key []byte, ns, ts int) (goCipher.AEAD, error) {
	return NewCCMWithNonceAndTagSize(c03NewBlock(key, 16, 0), ns, ts)
}

func verifH_c04_ccm_seal() {
	ns, ts, n, alen := verifParam("ns"), verifParam("ts"), verifParam("n"), verifParam("alen")
	plen, spare := verifParam("prefix"), verifParam("spare")
	key := verifBytes("key", 16)
	nonce := verifBytes("nonce", ns)
	msg := verifBytes("msg", n)
	aad := verifBytes("aad", alen)
	keepM, keepA, keepN := append([]byte(nil), msg...), append([]byte(nil), aad...), append([]byte(nil), nonce...)
	a, err := c04New(key, ns, ts)
	verifAssert(err == nil && a.NonceSize() == ns && a.Overhead() == ts, "constructor")
	dst := verifBytesCap("dst", plen, plen+spare)
	keepD := append([]byte(nil), dst...)
	out := a.Seal(dst, nonce, msg, aad)
	verifAssert(len(out) == plen+n+ts && verifEqBytes(out[:plen], keepD), "Seal only appends to dst")
	verifAssert(verifEqBytes(msg, keepM) && verifEqBytes(aad, keepA) && verifEqBytes(nonce, keepN), "inputs not modified")
	c := c04Crypt(key, keepN, keepM)
	t := c04Auth(key, keepN, keepM, keepA, ts)
	u := c03Xor(t[:ts], c04S(key, keepN, 0)[:ts])
	verifAssert(verifEqBytes(out[plen:plen+n], c), "ciphertext = m xor S_1..")
	verifAssert(verifEqBytes(out[plen+n:], u), "tag = first M bytes of T xor S_0")
	// round trip
	back, err := a.Open(nil, nonce, out[plen:], aad)
	verifAssert(err == nil && verifEqBytes(back, keepM), "Open(Seal(m)) == m")
	verifReach("end")
}

// Open on arbitrary (ciphertext, tag): succeeds exactly when the recomputed tag equals the received
// one, returns the CTR decryption; on failure returns nil and leaves the output region zeroed.
func verifH_c04_ccm_open() {
	ns, ts, n, alen := verifParam("ns"), verifParam("ts"), verifParam("n"), verifParam("alen")
	plen := verifParam("prefix")
	key := verifBytes("key", 16)
	nonce := verifBytes("nonce", ns)
	ct := verifBytes("ct", n+ts)
	aad := verifBytes("aad", alen)
	keepC := append([]byte(nil), ct...)
	a, _ := c04New(key, ns, ts)
	buf := verifBytesCap("dst", plen, plen+n+3)
	keepD := append([]byte(nil), buf[:plen+n+3]...)
	out, err := a.Open(buf, nonce, ct, aad)
	p := c04Crypt(key, nonce, keepC[:n])
	t := c04Auth(key, nonce, p, aad, ts)
	u := c03Xor(t[:ts], c04S(key, nonce, 0)[:ts])
	full := buf[:plen+n+3]
	if err == nil {
		verifAssert(verifEqBytes(u, keepC[n:]), "accepted only if the recomputed tag equals the received tag")
		verifAssert(len(out) == plen+n && verifEqBytes(out[:plen], keepD[:plen]) && verifEqBytes(out[plen:], p), "plaintext appended to dst")
	} else {
		verifAssert(!verifEqBytes(u, keepC[n:]), "refused only if the tags differ")
		verifAssert(out == nil, "no plaintext is returned on failure")
		zero := make([]byte, n)
		verifAssert(verifEqBytes(full[plen:plen+n], zero), "the output region is zeroed on failure")
		verifAssert(verifEqBytes(full[:plen], keepD[:plen]), "dst prefix untouched on failure")
	}
	verifAssert(verifEqBytes(full[plen+n:], keepD[plen+n:]), "bytes after the output region untouched")
	verifAssert(verifEqBytes(ct, keepC), "ciphertext not modified")
	verifReach("end")
}

func verifH_c04_ccm_args() {
	ns := verifInt("ns", -1, 20)
	ts := verifInt("ts", 0, 20)
	key := verifBytes("key", 16)
	a, err := c04New(key, ns, ts)
	ok := ns >= 7 && ns <= 13 && ts >= 4 && ts <= 16 && ts%2 == 0
	verifAssert((err == nil) == ok, "constructor accepts exactly nonce sizes 7..13 and tag sizes 4,6,..,16")
	if err == nil {
		verifAssert(a.NonceSize() == ns && a.Overhead() == ts, "sizes")
	}
	verifReach("end")
}

// short / mis-sized inputs: Open returns an error for ciphertext shorter than the tag; wrong nonce
// length panics (documented), nothing else does
func verifH_c04_ccm_short() {
	ns, ts, n, nl := verifParam("ns"), verifParam("ts"), verifParam("n"), verifParam("noncelen")
	key := verifBytes("key", 16)
	a, _ := c04New(key, ns, ts)
	nonce := verifBytes("nonce", nl)
	ct := verifBytes("ct", n)
	var err error
	var out []byte
	p := verifPanics(func() { out, err = a.Open(nil, nonce, ct, nil) })
	verifAssert(p == (nl != ns), "Open panics exactly on a wrong nonce length")
	if !p && n < ts {
		verifAssert(err != nil && out == nil, "ciphertext shorter than the tag is refused")
	}
	p2 := verifPanics(func() { a.Seal(nil, nonce, ct, nil) })
	verifAssert(p2 == (nl != ns), "Seal panics exactly on a wrong nonce length")
	verifReach("end")
}
