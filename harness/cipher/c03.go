package cipher

import (
	goCipher "crypto/cipher"
)

// C03 (package cipher): ECB, BC, OFBNLF and HCTR over an uninterpreted block cipher (UF-E).

type c03Block struct {
	key []byte
	bs  int
}

func (b *c03Block) BlockSize() int { return b.bs }
func (b *c03Block) Encrypt(dst, src []byte) {
	copy(dst[:b.bs], verifPerm("E", false, b.key, src[:b.bs]))
}
func (b *c03Block) Decrypt(dst, src []byte) {
	copy(dst[:b.bs], verifPerm("E", true, b.key, src[:b.bs]))
}

type c03Conc struct {
	c03Block
	conc int
}

func (b *c03Conc) Concurrency() int { return b.conc }
func (b *c03Conc) EncryptBlocks(dst, src []byte) {
	if len(src) < b.bs*b.conc || len(dst) < b.bs*b.conc {
		panic("c03Conc: short buffer")
	}
	for i := 0; i < b.conc; i++ {
		b.Encrypt(dst[b.bs*i:], src[b.bs*i:])
	}
}
func (b *c03Conc) DecryptBlocks(dst, src []byte) {
	if len(src) < b.bs*b.conc || len(dst) < b.bs*b.conc {
		panic("c03Conc: short buffer")
	}
	for i := 0; i < b.conc; i++ {
		b.Decrypt(dst[b.bs*i:], src[b.bs*i:])
	}
}

func c03NewBlock(key []byte, bs, conc int) goCipher.Block {
	k := append([]byte(nil), key...)
	if conc > 0 {
		return &c03Conc{c03Block{k, bs}, conc}
	}
	return &c03Block{k, bs}
}

func c03Creator(bs int) CipherCreator {
	return func(key []byte) (goCipher.Block, error) { return c03NewBlock(key, bs, 0), nil }
}

func c03E(key, x []byte) []byte { return verifPerm("E", false, key, x) }

func c03Xor(a, b []byte) []byte {
	out := make([]byte, len(a))
	for i := range a {
		out[i] = a[i] ^ b[i]
	}
	return out
}

// c03SpecEnc is the textbook encryption of whole blocks; returns ciphertext and the chaining value after it.
// mode 0: ECB; 1: BC (GB/T 17964: C_i = E(P_i xor F_{i-1}), F_i = F_{i-1} xor C_i, F_0 = IV);
// 2: OFBNLF (K_i = E_K(K_{i-1}), K_0 = IV, C_i = E_{K_i}(P_i)).
func c03SpecEnc(mode, bs int, key, iv, p []byte) ([]byte, []byte) {
	var out []byte
	f := append([]byte(nil), iv...)
	for i := 0; i+bs <= len(p); i += bs {
		blk := p[i : i+bs]
		switch mode {
		case 0:
			out = append(out, c03E(key, blk)...)
		case 1:
			c := c03E(key, c03Xor(blk, f))
			f = c03Xor(f, c)
			out = append(out, c...)
		default:
			f = c03E(key, f)
			out = append(out, c03E(f, blk)...)
		}
	}
	return out, f
}

func c03NewMode(mode, bs, dir int, key, iv []byte) goCipher.BlockMode {
	b := c03NewBlock(key, bs, 0)
	switch mode {
	case 0:
		if dir == 0 {
			return NewECBEncrypter(b)
		}
		return NewECBDecrypter(b)
	case 1:
		if dir == 0 {
			return NewBCEncrypter(b, iv)
		}
		return NewBCDecrypter(b, iv)
	}
	var m goCipher.BlockMode
	var err error
	if dir == 0 {
		m, err = NewOFBNLFEncrypter(c03Creator(bs), key, iv)
	} else {
		m, err = NewOFBNLFDecrypter(c03Creator(bs), key, iv)
	}
	verifAssert(err == nil, "constructor")
	return m
}

// n1 then n2 blocks through one mode object (n1 may be 0) equal the one-shot textbook value; decrypt inverts.
func verifH_c03_blockmode() {
	mode, bs, dir := verifParam("mode"), verifParam("bs"), verifParam("dir")
	n1, n2 := verifParam("n1"), verifParam("n2")
	inplace := verifParam("inplace") == 1
	key := verifBytes("key", bs)
	iv := verifBytes("iv", bs)
	ivKeep := append([]byte(nil), iv...)
	p := verifBytes("p", (n1+n2)*bs)
	c, _ := c03SpecEnc(mode, bs, key, iv, p)
	in, want := p, c
	if dir == 1 {
		in, want = c, p
	}
	m := c03NewMode(mode, bs, dir, key, iv)
	verifAssert(m.BlockSize() == bs, "BlockSize")
	run := func(src, want []byte, what string) {
		src = append([]byte(nil), src...)
		canary := verifBytes("canary", 3)
		if inplace {
			buf := append(append([]byte(nil), src...), canary...)
			m.CryptBlocks(buf[:len(src)], buf[:len(src)])
			verifAssert(verifEqBytes(buf[len(src):], canary), what+": bytes after dst[len(src)] untouched")
			verifAssert(verifEqBytes(buf[:len(src)], want), what+": output equals the mode definition")
		} else {
			keep := append([]byte(nil), src...)
			buf := append(verifBytes("junk", len(src)), canary...)
			m.CryptBlocks(buf, src)
			verifAssert(verifEqBytes(buf[len(src):], canary), what+": bytes after dst[len(src)] untouched")
			verifAssert(verifEqBytes(src, keep), what+": source unchanged")
			verifAssert(verifEqBytes(buf[:len(src)], want), what+": output equals the mode definition")
		}
	}
	if n1 > 0 {
		run(in[:n1*bs], want[:n1*bs], "first call")
	}
	run(in[n1*bs:], want[n1*bs:], "call")
	verifAssert(verifEqBytes(iv, ivKeep), "caller's IV slice is not modified")
	verifReach("end")
}

// validate(): length/overlap preconditions panic, nothing else does.
func verifH_c03_blockmode_args() {
	mode, bs, dir := verifParam("mode"), verifParam("bs"), verifParam("dir")
	n, dl := verifParam("n"), verifParam("dstlen")
	key := verifBytes("key", bs)
	iv := verifBytes("iv", bs)
	m := c03NewMode(mode, bs, dir, key, iv)
	src := verifBytes("src", n)
	dst := verifBytes("dst", dl)
	keep := append([]byte(nil), dst...)
	p := verifPanics(func() { m.CryptBlocks(dst, src) })
	verifAssert(p == (n%bs != 0 || dl < n), "CryptBlocks panics exactly on partial blocks or short output")
	if p {
		verifAssert(verifEqBytes(dst, keep), "refused call leaves dst untouched")
	}
	verifReach("end")
}

// ---- HCTR ----

// GF(2^128) multiplication by the hash key as an uninterpreted function (see verifModel_hctr_mul).
func c03GfMul(h, y []byte) []byte {
	if verifSymbolic() {
		return verifUF("gfmul", 16, h, y)
	}
	return c03GfMulBits(h, y)
}

// bit-by-bit multiplication in GF(2^128), GCM bit order (SP 800-38D algorithm 1); used natively (replay)
// and by the multiplication lemma.
func c03GfMulBits(x, y []byte) []byte {
	z := make([]byte, 16)
	v := append([]byte(nil), y...)
	for i := 0; i < 128; i++ {
		bit := (x[i/8] >> (7 - uint(i%8))) & 1
		m := -bit // 0x00 or 0xff
		for j := 0; j < 16; j++ {
			z[j] ^= v[j] & m
		}
		lsb := v[15] & 1
		for j := 15; j > 0; j-- {
			v[j] = v[j]>>1 | v[j-1]<<7
		}
		v[0] >>= 1
		v[0] ^= 0xe1 & -lsb
	}
	return z
}

// branch-free twin of hctrDouble (equivalence: verifH_c03_hctr_double)
func verifModel_hctrDouble(x *hctrFieldElement) (double hctrFieldElement) {
	double.high = x.high>>1 | x.low<<63
	double.low = x.low>>1 ^ (0xe100000000000000 & -(x.high & 1))
	return
}

func verifH_c03_hctr_double() {
	x := hctrFieldElement{verifU64("lo"), verifU64("hi")}
	a := hctrDouble(&x)
	b := verifModel_hctrDouble(&x)
	verifAssert(a.low == b.low && a.high == b.high, "hctrDouble equals its branch-free summary")
	// and it is multiplication by x in the GCM bit order
	one := make([]byte, 16)
	one[0] = 0x40
	ref := c03GfMulBits(one, c03FE2Bytes(&x))
	verifAssert(verifEqBytes(c03FE2Bytes(&a), ref), "hctrDouble is multiplication by x")
	verifReach("end")
}

// verifModel_hctr_mul replaces (*hctr).mul: y = y*H with H = productTable[reverseBits(1)] (the hash key).
func verifModel_hctr_mul(h *hctr, y *hctrFieldElement) {
	hk := c03FE2Bytes(&h.productTable[reverseBits(1)])
	r := c03GfMul(hk, c03FE2Bytes(y))
	y.low = c03BE64(r[:8])
	y.high = c03BE64(r[8:])
}

func c03BE64(b []byte) uint64 {
	return uint64(b[0])<<56 | uint64(b[1])<<48 | uint64(b[2])<<40 | uint64(b[3])<<32 | uint64(b[4])<<24 | uint64(b[5])<<16 | uint64(b[6])<<8 | uint64(b[7])
}

func c03FE2Bytes(x *hctrFieldElement) []byte {
	out := make([]byte, 16)
	for i := 0; i < 8; i++ {
		out[i] = byte(x.low >> (56 - 8*uint(i)))
		out[8+i] = byte(x.high >> (56 - 8*uint(i)))
	}
	return out
}

// universal hash of HCTR (GB/T 17964-2021 ch. 11): Horner evaluation over pad0(X) followed by the bit
// length of X, X = N || T.
func c03UHash(hkey, n, tweak []byte) []byte {
	x := append(append([]byte(nil), n...), tweak...)
	bits := uint64(len(x)) * 8
	for len(x)%16 != 0 {
		x = append(x, 0)
	}
	y := make([]byte, 16)
	for i := 0; i < len(x); i += 16 {
		y = c03GfMul(hkey, c03Xor(y, x[i:i+16]))
	}
	lb := make([]byte, 16)
	for i := 0; i < 8; i++ {
		lb[15-i] = byte(bits >> (8 * uint(i)))
	}
	return c03GfMul(hkey, c03Xor(y, lb))
}

func c03HCTREnc(key, hkey, tweak, p []byte) []byte {
	m, n := p[:16], p[16:]
	mm := c03Xor(m, c03UHash(hkey, n, tweak))
	cc := c03E(key, mm)
	s := c03Xor(mm, cc)
	d := make([]byte, 0, len(n))
	for i := 0; 16*i < len(n); i++ {
		ctr := append([]byte(nil), s...)
		v := uint64(i + 1)
		for j := 0; j < 8; j++ {
			ctr[15-j] ^= byte(v >> (8 * uint(j)))
		}
		ks := c03E(key, ctr)
		for j := 16 * i; j < len(n) && j < 16*i+16; j++ {
			d = append(d, n[j]^ks[j-16*i])
		}
	}
	c := c03Xor(cc, c03UHash(hkey, d, tweak))
	return append(c, d...)
}

func verifH_c03_hctr() {
	dir, conc, n := verifParam("dir"), verifParam("conc"), verifParam("n")
	inplace := verifParam("inplace") == 1
	key := verifBytes("key", 16)
	hkey := verifBytes("hkey", 16)
	tweak := verifBytes("tweak", 16)
	p := verifBytes("p", n)
	c := c03HCTREnc(key, hkey, tweak, p)
	h, err := NewHCTR(c03NewBlock(key, 16, conc), tweak, hkey)
	verifAssert(err == nil && h.BlockSize() == 16, "constructor")
	in, want := p, c
	if dir == 1 {
		in, want = c, p
	}
	src := append([]byte(nil), in...)
	canary := verifBytes("canary", 3)
	var buf []byte
	if inplace {
		buf = append(append([]byte(nil), src...), canary...)
		src = buf[:n]
	} else {
		buf = append(verifBytes("junk", n), canary...)
	}
	if dir == 0 {
		h.EncryptBytes(buf[:len(buf)-1], src)
	} else {
		h.DecryptBytes(buf[:len(buf)-1], src)
	}
	verifAssert(verifEqBytes(buf[n:], canary), "bytes after dst[len(src)] untouched")
	verifAssert(verifEqBytes(buf[:n], want), "output equals the HCTR definition")
	verifReach("end")
}

// GF(2^128) product y*h by Horner evaluation of the defining sum  y*h = sum_i y_i x^i h  (GCM bit order:
// coefficient i is bit 7-(i%8) of byte i/8), from the highest coefficient down: z = z*x + y_i*h.
func c03GfMulHorner(h, y []byte) []byte {
	hl, hh := c03BE64(h[:8]), c03BE64(h[8:])
	yl, yh := c03BE64(y[:8]), c03BE64(y[8:])
	var zl, zh uint64
	for i := 127; i >= 0; i-- {
		// z = z * x
		lsb := zh & 1
		zh = zh>>1 | zl<<63
		zl = zl>>1 ^ (0xe100000000000000 & -lsb)
		// z += y_i * h
		var bit uint64
		if i < 64 {
			bit = (yl >> (63 - uint(i))) & 1
		} else {
			bit = (yh >> (127 - uint(i))) & 1
		}
		zl ^= hl & -bit
		zh ^= hh & -bit
	}
	return c03FE2Bytes(&hctrFieldElement{zl, zh})
}

// The table-driven (*hctr).mul equals multiplication in GF(2^128) for every hash key and every operand
// (chained lemmas relate the accumulator after each nibble with four Horner steps); this justifies the
// gfmul abstraction used by verifH_c03_hctr.  Natively the Horner form is also compared with SP 800-38D
// algorithm 1 (c03GfMulBits).
func verifH_c03_hctr_mul() {
	verifWordLevel(true)
	hkey := verifBytes("hkey", 16)
	yb := verifBytes("y", 16)
	tw := make([]byte, 16)
	m, _ := NewHCTR(c03NewBlock(tw, 16, 0), tw, hkey)
	h := m.(*hctr)
	y := hctrFieldElement{c03BE64(yb[:8]), c03BE64(yb[8:])}
	h.mul(&y)
	want := c03GfMulHorner(hkey, yb)
	if !verifSymbolic() {
		verifAssert(verifEqBytes(want, c03GfMulBits(yb, hkey)), "Horner form equals SP 800-38D algorithm 1")
	}
	verifAssertEqSweep(c03FE2Bytes(&y), want, "hctr.mul is GF(2^128) multiplication by the hash key")
	verifReach("end")
}
