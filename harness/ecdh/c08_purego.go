package ecdh

import (
	"math/big"

	sm2ec "github.com/emmansun/gmsm/internal/sm2ec"
)

// ---- C08 (narrow, ecdh package only): SM2-MQV data flow and peer-key validation in the abstract group ----

var c08P = []byte{0xFF, 0xFF, 0xFF, 0xFE, 0xFF, 0xFF, 0xFF, 0xFF, 0xFF, 0xFF, 0xFF, 0xFF, 0xFF, 0xFF, 0xFF, 0xFF,
	0xFF, 0xFF, 0xFF, 0xFF, 0x00, 0x00, 0x00, 0x00, 0xFF, 0xFF, 0xFF, 0xFF, 0xFF, 0xFF, 0xFF, 0xFF}

func c08OnCurve(x, y []byte) bool {
	return verifAll(c12Less(x, c08P), c12Less(y, c08P), sm2ec.VerifOnCurve(x, y))
}

// NewPublicKey on every byte string of length n: accepted exactly for 04||x||y with canonical coordinates
// on the curve (the point at infinity and compressed forms are refused); the bytes are kept verbatim.
func verifH_c08_newpub() {
	n := verifParam("n")
	b := verifBytes("pub", n)
	keep := append([]byte(nil), b...)
	k, err := sm2P256.NewPublicKey(b)
	want := false
	if n == 65 {
		want = verifAll(keep[0] == 4, c08OnCurve(keep[1:33], keep[33:65]))
	}
	if verifSymbolic() {
		verifAssert((err == nil) == want, "a peer key is accepted exactly if it is 04||x||y, canonical and on the curve")
	} else if n != 65 || keep[0] != 4 {
		verifAssert(err != nil, "a peer key of another length or tag is refused")
	}
	if err == nil {
		verifAssert(k != nil && verifEqBytes(k.publicKey, keep), "the encoding is kept verbatim")
		verifReach("accepted")
	}
	verifReach("end")
}

func c08Avf(x []byte) []byte {
	r := make([]byte, 32)
	copy(r[16:], x[16:32])
	r[16] = r[16]&0x7f | 0x80
	return r
}

// SM2MQV(sLocal, eLocal, sRemote, eRemote) = [t](P + [x1~]R) with t = (s + x2~ e) mod n, x2~ = avf(x([e]G)),
// x1~ = avf(x(R)); an error exactly if that point is the point at infinity (given valid keys).
func verifH_c08_mqv() {
	if !verifSymbolic() {
		c08MqvNative()
		verifReach("end")
		return
	}
	s, e := verifBytes("s", 32), verifBytes("e", 32)
	verifAssume(verifAll(c12Valid(s), c12Valid(e)))
	sLocal := &PrivateKey{curve: sm2P256, privateKey: s}
	eLocal := &PrivateKey{curve: sm2P256, privateKey: e}
	P, R := verifBytes("P", 64), verifBytes("R", 64)
	verifAssume(verifAll(c08OnCurve(P[:32], P[32:]), c08OnCurve(R[:32], R[32:])))
	sRemote := &PublicKey{curve: sm2P256, publicKey: append([]byte{4}, P...)}
	eRemote := &PublicKey{curve: sm2P256, publicKey: append([]byte{4}, R...)}

	// the standard's value over the abstract operations
	ex := verifUF("G.x", 32, e)
	x2 := c08Avf(ex)
	t, terr := sm2ec.ImplicitSig(s, e, x2)
	verifAssert(terr == nil, "implicit signature")
	x1 := c08Avf(R[:32])
	mx, my := verifUF("M.x", 32, R[:32], R[32:], x1), verifUF("M.y", 32, R[:32], R[32:], x1)
	ax, ay := verifUF("A.x", 32, P[:32], P[32:], mx, my), verifUF("A.y", 32, P[:32], P[32:], mx, my)
	inf := verifUF("A.inf", 1, P[:32], P[32:], mx, my)[0]&1 == 1
	ux, uy := verifUF("M.x", 32, ax, ay, t), verifUF("M.y", 32, ax, ay, t)
	// results of group operations are curve points with canonical coordinates
	verifAssume(c08OnCurve(ux, uy))
	verifAssume(verifAll(c12Less(verifUF("G.x", 32, e), c08P), c12Less(verifUF("G.y", 32, e), c08P)))

	u, err := sLocal.SM2MQV(eLocal, sRemote, eRemote)
	if inf {
		verifAssert(err != nil && u == nil, "a shared point at infinity is refused")
		verifReach("infinity")
	} else {
		verifAssert(err == nil && u != nil, "valid keys give a shared point")
		if err == nil && u != nil {
			verifAssert(len(u.publicKey) == 65 && u.publicKey[0] == 4 && verifEqBytes(u.publicKey[1:33], ux) && verifEqBytes(u.publicKey[33:], uy), "U = [t](P + [x1~]R) with t = (s + x2~ e) mod n")
		}
		verifReach("finite")
	}
	verifReach("end")
}

// native twin: both parties with real keys agree; and the crafted peer key P = -[x1~]R (shared point at
// infinity) is refused.
func c08MqvNative() {
	mk := func(tag string) *PrivateKey {
		d := verifBytes(tag, 32)
		d[0] &= 0x7f
		d[31] |= 1
		k, err := sm2P256.NewPrivateKey(d)
		if err != nil {
			return nil
		}
		return k
	}
	sA, eA, sB, eB := mk("sa"), mk("ea"), mk("sb"), mk("eb")
	if sA == nil || eA == nil || sB == nil || eB == nil {
		return
	}
	uA, errA := sA.SM2MQV(eA, sB.PublicKey(), eB.PublicKey())
	uB, errB := sB.SM2MQV(eB, sA.PublicKey(), eA.PublicKey())
	verifAssert(errA == nil && errB == nil && verifEqBytes(uA.publicKey, uB.publicKey), "both parties derive the same point")
	// peer static key P = -[x1~]R: the shared point is the point at infinity for every honest party
	x1 := sm2P256.sm2avf(eB.PublicKey())
	r, _ := sm2P256.newPoint().SetBytes(eB.PublicKey().publicKey)
	if _, err := r.ScalarMult(r, x1); err != nil {
		return
	}
	rb := r.Bytes()
	if len(rb) != 65 {
		return
	}
	ny := new(big.Int).Sub(new(big.Int).SetBytes(c08P), new(big.Int).SetBytes(rb[33:]))
	ny.FillBytes(rb[33:])
	bad, err := sm2P256.NewPublicKey(rb)
	if err != nil {
		return
	}
	u, err := sA.SM2MQV(eA, bad, eB.PublicKey())
	verifAssert(err != nil && u == nil, "a shared point at infinity is refused")
}
