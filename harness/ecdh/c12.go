package ecdh

import (
	"errors"
	"io"
)

// C12 (ecdh): GenerateKey draws 32-byte blocks, XORs byte 1 with 0x42 and returns the first candidate in
// [1, n-2]; a failing source is an error.  C14 (range): NewPrivateKey accepts exactly [1, n-2].

var c12ErrSource = errors.New("random source failed")

type c12Reader struct {
	calls  int
	failAt int
	mode   int
	given  [][]byte
}

func (r *c12Reader) Read(p []byte) (int, error) {
	r.calls++
	if r.calls == r.failAt {
		if r.mode == 1 {
			return 0, c12ErrSource
		}
		half := len(p) / 2
		copy(p, verifBytes("partial", half))
		return half, io.EOF
	}
	if r.failAt > 0 && r.calls > r.failAt {
		return 0, io.EOF
	}
	b := verifBytes("rnd", len(p))
	copy(p, b)
	r.given = append(r.given, b)
	return len(p), nil
}

func c12Less(a, b []byte) bool {
	lt := false
	eq := true
	for i := range a {
		lt = verifAny(lt, verifAll(eq, a[i] < b[i]))
		eq = verifAll(eq, a[i] == b[i])
	}
	return lt
}

func c12Valid(k []byte) bool {
	nz := false
	for _, x := range k {
		nz = verifAny(nz, x != 0)
	}
	return verifAll(nz, c12Less(k, sm2P256OrderMinus1))
}

func c12Tweak(b []byte) []byte {
	t := append([]byte(nil), b...)
	t[1] ^= 0x42
	return t
}

func verifH_c12_ecdh_genkey() {
	failAt, mode := verifParam("failat"), verifParam("mode")
	rd := &c12Reader{failAt: failAt, mode: mode}
	k, err := sm2P256.GenerateKey(rd)
	// MaybeReadByte may have consumed one 1-byte read first: drop it from the block list
	blocks := rd.given
	if len(blocks) > 0 && len(blocks[0]) == 1 {
		blocks = blocks[1:]
	}
	if err != nil {
		verifAssert(k == nil, "no key on failure")
		verifAssert(failAt > 0 && rd.calls >= failAt, "an error only when the source failed")
		for _, b := range blocks {
			verifAssert(!c12Valid(c12Tweak(b)), "every candidate before the failure was out of range")
		}
		verifReach("failed")
		verifReach("end")
		return
	}
	n := len(blocks)
	verifAssert(n >= 1 && k != nil, "a key and at least one block")
	last := c12Tweak(blocks[n-1])
	verifAssert(verifEqBytes(k.privateKey, last), "the key is the last block read, byte 1 XOR 0x42, nothing else changed")
	verifAssert(c12Valid(last), "and lies in [1, n-2]")
	for _, b := range blocks[:n-1] {
		verifAssert(!c12Valid(c12Tweak(b)), "earlier candidates were out of range")
	}
	verifReach("ok")
	verifReach("end")
}

// NewPrivateKey accepts exactly 32-byte scalars in [1, n-2]
func verifH_c14_ecdh_range() {
	n := verifParam("n")
	key := verifBytes("key", n)
	keep := append([]byte(nil), key...)
	k, err := sm2P256.NewPrivateKey(key)
	if n != 32 {
		verifAssert(err != nil && k == nil, "wrong length refused")
	} else {
		verifAssert((err == nil) == c12Valid(keep), "accepted exactly when 1 <= key <= n-2")
		if err == nil {
			verifAssert(verifEqBytes(k.Bytes(), keep), "the key bytes are kept verbatim")
		}
	}
	verifReach("end")
}
