package ecdh

import (
	"errors"
	"io"
)

// C12 (ecdh): GenerateKey draws 32-byte blocks, XORs byte 1 with 0x42 and returns the first candidate in
// [1, n-2]; a failing source is an error.  C14 (range): NewPrivateKey accepts exactly [1, n-2].

var c12ErrSource = errors.New("random source failed")

// scripted random source: delivers arbitrary bytes; at call index failAt it misbehaves:
//   mode 1: returns an error; mode 2: delivers half of the request, then EOF;
//   mode 3: delivers half of the request with a nil error (a legal short read) and carries on.
// One-byte requests (randutil.MaybeReadByte) are served separately and not counted; the source ends
// after `limit` calls.
type c12Reader struct {
	calls  int
	failAt int
	mode   int
	limit  int
	stream []byte
	dead   bool
}

func (r *c12Reader) Read(p []byte) (int, error) {
	if len(p) == 1 {
		p[0] = verifU8("maybebyte")
		return 1, nil
	}
	if r.dead {
		return 0, io.EOF
	}
	r.calls++
	if r.limit > 0 && r.calls > r.limit {
		r.dead = true
		return 0, io.EOF
	}
	if r.calls == r.failAt {
		switch r.mode {
		case 1:
			r.dead = true
			return 0, c12ErrSource
		case 2:
			half := len(p) / 2
			b := verifBytes("partial", half)
			copy(p, b)
			r.stream = append(r.stream, b...)
			r.dead = true
			return half, io.EOF
		case 3:
			half := len(p) / 2
			b := verifBytes("short", half)
			copy(p, b)
			r.stream = append(r.stream, b...)
			return half, nil
		}
	}
	b := verifBytes("rnd", len(p))
	copy(p, b)
	r.stream = append(r.stream, b...)
	return len(p), nil
}

func c12Less(a, b []byte) bool {
	lt := false
	eq := true
	for i := range a {
		lt = verifAny(lt, verifAll(eq, a[i] < b[i]))
		eq = verifAll(eq, a[i] == b[i])
	}
	return lt
}

func c12Valid(k []byte) bool {
	nz := false
	for _, x := range k {
		nz = verifAny(nz, x != 0)
	}
	return verifAll(nz, c12Less(k, sm2P256OrderMinus1))
}

func c12Tweak(b []byte) []byte {
	t := append([]byte(nil), b...)
	t[1] ^= 0x42
	return t
}

func verifH_c12_ecdh_genkey() {
	rd := &c12Reader{failAt: verifParam("failat"), mode: verifParam("mode"), limit: 4}
	k, err := sm2P256.GenerateKey(rd)
	nblk := len(rd.stream) / 32
	blk := func(j int) []byte { return c12Tweak(rd.stream[32*j : 32*j+32]) }
	if err != nil {
		verifAssert(k == nil, "no key on failure")
		verifAssert(rd.dead, "an error only when the source failed")
		for j := 0; j < nblk; j++ {
			verifAssert(!c12Valid(blk(j)), "every complete candidate before the failure was out of range")
		}
		verifReach("failed")
		verifReach("end")
		return
	}
	verifAssert(nblk >= 1 && k != nil && len(rd.stream) == 32*nblk, "a key, from whole blocks of the stream (short reads are completed, never padded)")
	last := blk(nblk - 1)
	verifAssert(verifEqBytes(k.privateKey, last), "the key is the last block read, byte 1 XOR 0x42, nothing else changed")
	verifAssert(c12Valid(last), "and lies in [1, n-2]")
	for j := 0; j < nblk-1; j++ {
		verifAssert(!c12Valid(blk(j)), "earlier candidates were out of range")
	}
	verifReach("ok")
	verifReach("end")
}

// NewPrivateKey accepts exactly 32-byte scalars in [1, n-2]
func verifH_c14_ecdh_range() {
	n := verifParam("n")
	key := verifBytes("key", n)
	keep := append([]byte(nil), key...)
	k, err := sm2P256.NewPrivateKey(key)
	if n != 32 {
		verifAssert(err != nil && k == nil, "wrong length refused")
	} else {
		verifAssert((err == nil) == c12Valid(keep), "accepted exactly when 1 <= key <= n-2")
		if err == nil {
			verifAssert(verifEqBytes(k.Bytes(), keep), "the key bytes are kept verbatim")
		}
	}
	verifReach("end")
}
