package cbcmac

import "crypto/cipher"

// C19 harnesses: the eight GB/T 15852.1 / ISO/IEC 9797-1 MAC algorithms over an uninterpreted keyed
// permutation (UF-E): the construction is what is checked, for every block cipher.

type c19Block struct {
	key []byte
	bs  int
}

func (b *c19Block) BlockSize() int { return b.bs }
func (b *c19Block) Encrypt(dst, src []byte) {
	copy(dst[:b.bs], verifPerm("E", false, b.key, src[:b.bs]))
}
func (b *c19Block) Decrypt(dst, src []byte) {
	copy(dst[:b.bs], verifPerm("E", true, b.key, src[:b.bs]))
}

func c19Creator(bs int) func(key []byte) (cipher.Block, error) {
	return func(key []byte) (cipher.Block, error) {
		return &c19Block{key: append([]byte(nil), key...), bs: bs}, nil
	}
}

// ---- reference model ----

func c19E(key, x []byte) []byte { return verifPerm("E", false, key, x) }
func c19D(key, x []byte) []byte { return verifPerm("E", true, key, x) }

func c19Xor(a, b []byte) []byte {
	out := make([]byte, len(a))
	for i := range a {
		out[i] = a[i] ^ b[i]
	}
	return out
}

// padding method 2: m || 80 || 00*
func c19Pad2(m []byte, bs int) []byte {
	out := append([]byte(nil), m...)
	out = append(out, 0x80)
	for len(out)%bs != 0 {
		out = append(out, 0)
	}
	return out
}

// plain CBC chain from h over whole blocks of d
func c19Chain(key, h, d []byte, bs int) []byte {
	for len(d) > 0 {
		h = c19E(key, c19Xor(h, d[:bs]))
		d = d[bs:]
	}
	return h
}

// doubling in GF(2^n) with the CMAC constant for the block size (SP 800-38B / ISO 9797-1 alg. 5)
func c19Dbl(x []byte) []byte {
	n := len(x)
	out := make([]byte, n)
	for i := 0; i < n; i++ {
		out[i] = x[i] << 1
		if i+1 < n {
			out[i] |= x[i+1] >> 7
		}
	}
	r := byte(0x87)
	if n == 8 {
		r = 0x1B
	}
	out[n-1] ^= (x[0] >> 7) * r
	return out
}

func c19RotL(x []byte) []byte {
	n := len(x)
	out := make([]byte, n)
	for i := 0; i < n; i++ {
		out[i] = x[i]<<1 | x[(i+1)%n]>>7
	}
	return out
}

func c19RotR(x []byte) []byte {
	n := len(x)
	out := make([]byte, n)
	for i := 0; i < n; i++ {
		out[i] = x[i]>>1 | x[(i+n-1)%n]<<7
	}
	return out
}

// c19Spec returns the reference tag (already truncated to size) of scheme over message m.
func c19Spec(scheme, bs, size int, k1, k2, m []byte) []byte {
	zero := make([]byte, bs)
	switch scheme {
	case 0: // algorithm 1: CBC-MAC
		return c19Chain(k1, zero, c19Pad2(m, bs), bs)[:size]
	case 1: // algorithm 2: EMAC
		return c19E(k2, c19Chain(k1, zero, c19Pad2(m, bs), bs))[:size]
	case 2: // algorithm 3: ANSI retail MAC
		h := c19Chain(k1, zero, c19Pad2(m, bs), bs)
		return c19E(k1, c19D(k2, h))[:size]
	case 3: // algorithm 4: MAC-DES
		d := c19Pad2(m, bs)
		k3 := make([]byte, len(k2))
		for i := range k2 {
			k3[i] = k2[i] ^ 0xF0
		}
		h := c19E(k3, c19E(k1, d[:bs]))
		h = c19Chain(k1, h, d[bs:], bs)
		return c19E(k2, h)[:size]
	case 4: // algorithm 5: CMAC
		l := c19E(k1, zero)
		s1 := c19Dbl(l)
		s2 := c19Dbl(s1)
		var last []byte
		var head []byte
		if len(m) > 0 && len(m)%bs == 0 {
			head = m[:len(m)-bs]
			last = c19Xor(m[len(m)-bs:], s1)
		} else {
			full := len(m) / bs * bs
			head = m[:full]
			last = c19Xor(c19Pad2(m[full:], bs), s2)
		}
		h := c19Chain(k1, zero, head, bs)
		return c19E(k1, c19Xor(h, last))[:size]
	case 5: // algorithm 6: LMAC
		c1 := make([]byte, bs)
		c1[bs-1] = 1
		c2 := make([]byte, bs)
		c2[bs-1] = 2
		ka := c19E(k1, c1)
		kb := c19E(k1, c2)
		d := c19Pad2(m, bs)
		h := c19Chain(ka, zero, d[:len(d)-bs], bs)
		return c19E(kb, c19Xor(h, d[len(d)-bs:]))[:size]
	case 6: // algorithm 7: TR-CBC-MAC
		if len(m) > 0 && len(m)%bs == 0 {
			return c19Chain(k1, zero, m, bs)[:size]
		}
		return c19Chain(k1, zero, c19Pad2(m, bs), bs)[bs-size:]
	default: // algorithm 8: CBCR0 (non-empty messages)
		h := c19E(k1, zero)
		if len(m)%bs == 0 {
			h = c19Chain(k1, h, m[:len(m)-bs], bs)
			return c19E(k1, c19RotR(c19Xor(h, m[len(m)-bs:])))[:size]
		}
		d := c19Pad2(m, bs)
		h = c19Chain(k1, h, d[:len(d)-bs], bs)
		return c19E(k1, c19RotL(c19Xor(h, d[len(d)-bs:])))[:size]
	}
}

func c19New(scheme, bs, size int, k1, k2 []byte) BlockCipherMAC {
	cr := c19Creator(bs)
	switch scheme {
	case 0:
		b, _ := cr(k1)
		return NewCBCMAC(b, size)
	case 1:
		return NewEMAC(cr, k1, k2, size)
	case 2:
		return NewANSIRetailMAC(cr, k1, k2, size)
	case 3:
		return NewMACDES(cr, k1, k2, size)
	case 4:
		b, _ := cr(k1)
		return NewCMAC(b, size)
	case 5:
		return NewLMAC(cr, k1, size)
	case 6:
		b, _ := cr(k1)
		return NewTRCBCMAC(b, size)
	}
	b, _ := cr(k1)
	return NewCBCRMAC(b, size)
}

// One-shot MAC equals the reference; tag has the requested size; the message is not modified.
func verifH_c19_spec() {
	scheme, bs, n, size, spare := verifParam("scheme"), verifParam("bs"), verifParam("n"), verifParam("size"), verifParam("spare")
	k1 := verifBytes("k1", bs)
	k2 := verifBytes("k2", bs)
	m := verifBytesCap("m", n, n+spare)
	keep := append([]byte(nil), m...)
	mac := c19New(scheme, bs, size, k1, k2)
	verifAssert(mac.Size() == size, "Size() is the requested tag size")
	tag := mac.MAC(m)
	verifAssert(len(tag) == size, "tag has exactly the requested number of bytes")
	verifAssert(verifEqBytes(m, keep), "message bytes unchanged")
	if scheme == 7 && n == 0 {
		// CBCR, empty message: outside the reference (see DESIGN.md C19); determinism only
		tag2 := c19New(scheme, bs, size, k1, k2).MAC(nil)
		verifAssert(verifEqBytes(tag, tag2), "deterministic")
		verifReach("end")
		return
	}
	exp := c19Spec(scheme, bs, size, k1, k2, keep)
	if len(tag) == size {
		verifAssert(verifEqBytes(tag, exp), "tag equals the GB/T 15852.1 definition")
	}
	// a second computation on the same object gives the same tag
	tag2 := mac.MAC(append([]byte(nil), keep...))
	verifAssert(verifEqBytes(tag2, tag), "same object, same message, same tag")
	verifReach("end")
}

// CMAC as hash.Hash: previous use of the object, Reset, any 3-way split with an interleaved Sum.
func verifH_c19_cmac_hist() {
	bs, size := verifParam("bs"), verifParam("size")
	n0, a, b, c := verifParam("n0"), verifParam("a"), verifParam("b"), verifParam("c")
	mode := verifParam("mode") // 0: previous message via MAC(); 1: via Write+Sum then Reset; 2: fresh object
	k1 := verifBytes("k1", bs)
	blk, _ := c19Creator(bs)(k1)
	h := NewCMAC(blk, size)
	switch mode {
	case 0:
		h.MAC(verifBytes("prev", n0))
		h.Reset()
	case 1:
		h.Write(verifBytes("prev", n0))
		h.Sum(nil)
		h.Reset()
	}
	m := verifBytes("m", a+b+c)
	n1, e1 := h.Write(m[:a])
	n2, e2 := h.Write(m[a : a+b])
	mid := h.Sum(nil)
	n3, e3 := h.Write(m[a+b:])
	verifAssert(n1 == a && n2 == b && n3 == c && e1 == nil && e2 == nil && e3 == nil, "Write returns (len, nil)")
	prefix := []byte{1, 2, 3}
	out := h.Sum(prefix)
	verifAssert(len(out) == 3+size && out[0] == 1 && out[1] == 2 && out[2] == 3, "Sum appends")
	out2 := h.Sum(nil)
	verifAssert(verifEqBytes(out[3:], out2), "Sum is repeatable")
	exp := c19Spec(4, bs, size, k1, nil, m)
	verifAssert(verifEqBytes(out2, exp), "streamed tag equals the one-shot definition")
	expMid := c19Spec(4, bs, size, k1, nil, m[:a+b])
	verifAssert(verifEqBytes(mid, expMid), "interleaved Sum equals the definition on the prefix")
	verifReach("end")
}

// Final-block transformations are injective: two different messages of the same length (at most one
// block) never share a full-size tag, for any permutation E.
func verifH_c19_inject() {
	scheme, bs, n := verifParam("scheme"), verifParam("bs"), verifParam("n")
	k1 := verifBytes("k1", bs)
	k2 := verifBytes("k2", bs)
	m1 := verifBytes("m1", n)
	m2 := verifBytes("m2", n)
	verifAssume(!verifEqBytes(m1, m2))
	t1 := c19New(scheme, bs, bs, k1, k2).MAC(m1)
	t2 := c19New(scheme, bs, bs, k1, k2).MAC(m2)
	verifAssert(!verifEqBytes(t1, t2), "different equal-length messages give different tags (injective final transformation)")
	verifReach("end")
}

// Constructors refuse sizes outside 1..blockSize.
func verifH_c19_ctor() {
	scheme, bs := verifParam("scheme"), verifParam("bs")
	size := verifInt("size", -2, 40)
	k := verifBytes("k", bs)
	p := verifPanics(func() { c19New(scheme, bs, size, k, k) })
	verifAssert(p == (size <= 0 || size > bs), "constructor accepts exactly sizes 1..blockSize")
	verifReach("end")
}
