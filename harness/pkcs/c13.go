package pkcs

import (
	"crypto/cipher"
	"encoding/asn1"
)

// C13 (pkcs): the CBC/ECB decrypt helpers behind PBES1/PBES2/PKCS#7/PKCS#8 on attacker-sized IVs and
// ciphertexts: an error or a value, never a panic; and encrypt/decrypt round trips over UF-E.

type c13Block struct {
	key []byte
	bs  int
}

func (b *c13Block) BlockSize() int { return b.bs }
func (b *c13Block) Encrypt(dst, src []byte) {
	copy(dst[:b.bs], verifPerm("E", false, b.key, src[:b.bs]))
}
func (b *c13Block) Decrypt(dst, src []byte) {
	copy(dst[:b.bs], verifPerm("E", true, b.key, src[:b.bs]))
}

func c13NewBlock(bs int) func(key []byte) (cipher.Block, error) {
	return func(key []byte) (cipher.Block, error) {
		return &c13Block{key: append([]byte(nil), key...), bs: bs}, nil
	}
}

// cbcDecrypt with any IV length and any ciphertext length
func verifH_c13_cbcdecrypt() {
	bs, ivl, n := verifParam("bs"), verifParam("ivlen"), verifParam("n")
	key := verifBytes("key", 16)
	blk, _ := c13NewBlock(bs)(key)
	iv := verifBytes("iv", ivl)
	ct := verifBytes("ct", n)
	keep := append([]byte(nil), ct...)
	pt, err := cbcDecrypt(blk, iv, ct)
	if ivl != bs || n == 0 || n%bs != 0 {
		verifAssert(err != nil && pt == nil, "mis-sized IV or ciphertext is refused with an error")
	}
	verifAssert(verifEqBytes(ct, keep), "ciphertext not modified")
	verifReach("end")
}

// cbcEncrypt then cbcDecrypt returns the plaintext
func verifH_c13_cbc_roundtrip() {
	bs, n := verifParam("bs"), verifParam("n")
	key := verifBytes("key", 16)
	blk, _ := c13NewBlock(bs)(key)
	iv := verifBytes("iv", bs)
	msg := verifBytes("msg", n)
	keep := append([]byte(nil), msg...)
	ct, err := cbcEncrypt(blk, iv, msg)
	verifAssert(err == nil && len(ct)%bs == 0 && len(ct) > n, "ciphertext is whole blocks, longer than the message")
	pt, err := cbcDecrypt(blk, iv, ct)
	verifAssert(err == nil && verifEqBytes(pt, keep), "decrypt(encrypt(m)) == m")
	verifReach("end")
}

// ECB cipher wrapper: Decrypt on any ciphertext length
func verifH_c13_ecbdecrypt() {
	bs, n := verifParam("bs"), verifParam("n")
	e := &ecbBlockCipher{baseBlockCipher{keySize: 16, newBlock: c13NewBlock(bs)}}
	key := verifBytes("key", 16)
	ct := verifBytes("ct", n)
	pt, err := e.Decrypt(key, &asn1.RawValue{}, ct)
	if n%bs != 0 {
		verifAssert(err != nil && pt == nil, "a ciphertext that is not whole blocks is refused with an error")
	}
	verifReach("end")
}
