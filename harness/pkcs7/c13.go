package pkcs7

import (
	"bytes"
	"crypto/rand"
	"errors"
)

// C13/C16: the hand-written BER reader on arbitrary bytes.

// ber2der on every byte string of length n: no panic, terminates.
func verifH_c13_ber() {
	n := verifParam("n")
	b := verifBytes("b", n)
	keep := append([]byte(nil), b...)
	out, err := ber2der(b)
	if err == nil {
		verifAssert(len(out) >= 2, "a successful conversion yields at least tag and length")
	}
	verifAssert(verifEqBytes(b, keep), "input not modified")
	verifReach("end")
}

// c16DER: b[off:end] starts with one DER TLV (definite minimal length, children of a constructed value
// fill it exactly); returns the offset after it.  Lengths >= 128 cannot occur within the bound.
func c16DER(b []byte, off, end int) (int, bool) {
	if off >= end {
		return 0, false
	}
	t := b[off]
	off++
	if t&0x1f == 0x1f {
		first := true
		for {
			if off >= end {
				return 0, false
			}
			c := b[off]
			off++
			if first && c == 0x80 {
				return 0, false
			}
			first = false
			if c < 0x80 {
				break
			}
		}
	}
	if off >= end {
		return 0, false
	}
	l := b[off]
	off++
	if l >= 0x80 {
		return 0, false // indefinite, or a long form that cannot be minimal below 128
	}
	length := verifConcretize(int(l))
	if off+length > end {
		return 0, false
	}
	if t&0x20 != 0 {
		p := off
		for p < off+length {
			var ok bool
			p, ok = c16DER(b, p, off+length)
			if !ok {
				return 0, false
			}
		}
	}
	return off + length, true
}

// C16: re-encoding leaves already-DER input unchanged.
func verifH_c16_ber_id() {
	n := verifParam("n")
	b := verifBytes("b", n)
	end, ok := c16DER(b, 0, n)
	if ok && end == n {
		keep := append([]byte(nil), b...)
		out, err := ber2der(b)
		verifAssert(err == nil, "DER input is accepted")
		verifAssert(verifEqBytes(out, keep), "DER input is returned unchanged")
		verifReach("der")
	}
	verifReach("end")
}

// C16: the DER length re-encoder is minimal and exact for every length below 2^31.
func verifH_c16_length() {
	i := verifInt("len", 0, 1<<31-1)
	out := new(bytes.Buffer)
	err := encodeLength(out, i)
	verifAssert(err == nil, "no error")
	b := out.Bytes()
	if i < 128 {
		verifAssert(len(b) == 1 && b[0] == byte(i), "short form below 128")
	} else {
		k := 1
		if i > 0xff {
			k = 2
		}
		if i > 0xffff {
			k = 3
		}
		if i > 0xffffff {
			k = 4
		}
		verifAssert(len(b) == 1+k && b[0] == 0x80|byte(k), "long form with the minimal number of length bytes")
		if len(b) == 1+k {
			for j := 0; j < k; j++ {
				verifAssert(b[1+j] == byte(i>>(8*uint(k-1-j))), "big-endian length bytes")
			}
		}
	}
	verifReach("end")
}

// C16 (narrow): the default session's content-encryption key is exactly what the random source delivered;
// if the source fails, an error and NO key come back (an envelope is never sealed under a key that was
// not drawn).
type c16FailReader struct{ fail bool }

func (r *c16FailReader) Read(p []byte) (int, error) {
	if r.fail {
		return 0, c16ErrRand
	}
	for i := range p {
		p[i] = byte(0xA5 + i)
	}
	return len(p), nil
}

var c16ErrRand = errors.New("random source failed")

func verifH_c16_datakey() {
	size := verifParam("size")
	if !verifSymbolic() {
		old := rand.Reader
		defer func() { rand.Reader = old }()
		rand.Reader = &c16FailReader{fail: true}
		key, err := DefaultSession{}.GenerateDataKey(size)
		verifAssert(err != nil && key == nil, "a failing random source yields an error and no key")
		rand.Reader = &c16FailReader{}
		key, err = DefaultSession{}.GenerateDataKey(size)
		verifAssert(err == nil && len(key) == size, "a working random source yields a key of the requested size")
		for i := range key {
			verifAssert(key[i] == byte(0xA5+i), "the key is exactly the bytes the source delivered")
		}
		verifReach("ok")
		verifReach("failed")
		verifReach("end")
		return
	}
	key, err := DefaultSession{}.GenerateDataKey(size)
	if verifRandFailed() {
		verifAssert(err != nil && key == nil, "a failing random source yields an error and no key")
		verifReach("failed")
	} else {
		verifAssert(err == nil && len(key) == size, "a working random source yields a key of the requested size")
		verifReach("ok")
	}
	verifReach("end")
}
