package pkcs7

// C13/C16: the hand-written BER reader on arbitrary bytes.

// ber2der on every byte string of length n: no panic, terminates.
func verifH_c13_ber() {
	n := verifParam("n")
	b := verifBytes("b", n)
	keep := append([]byte(nil), b...)
	out, err := ber2der(b)
	if err == nil {
		verifAssert(len(out) >= 2, "a successful conversion yields at least tag and length")
	}
	verifAssert(verifEqBytes(b, keep), "input not modified")
	verifReach("end")
}

// c16DER: b[off:end] starts with one DER TLV (definite minimal length, children of a constructed value
// fill it exactly); returns the offset after it.  Lengths >= 128 cannot occur within the bound.
func c16DER(b []byte, off, end int) (int, bool) {
	if off >= end {
		return 0, false
	}
	t := b[off]
	off++
	if t&0x1f == 0x1f {
		first := true
		for {
			if off >= end {
				return 0, false
			}
			c := b[off]
			off++
			if first && c == 0x80 {
				return 0, false
			}
			first = false
			if c < 0x80 {
				break
			}
		}
	}
	if off >= end {
		return 0, false
	}
	l := b[off]
	off++
	if l >= 0x80 {
		return 0, false // indefinite, or a long form that cannot be minimal below 128
	}
	length := verifConcretize(int(l))
	if off+length > end {
		return 0, false
	}
	if t&0x20 != 0 {
		p := off
		for p < off+length {
			var ok bool
			p, ok = c16DER(b, p, off+length)
			if !ok {
				return 0, false
			}
		}
	}
	return off + length, true
}

// C16: re-encoding leaves already-DER input unchanged.
func verifH_c16_ber_id() {
	n := verifParam("n")
	b := verifBytes("b", n)
	end, ok := c16DER(b, 0, n)
	if ok && end == n {
		keep := append([]byte(nil), b...)
		out, err := ber2der(b)
		verifAssert(err == nil, "DER input is accepted")
		verifAssert(verifEqBytes(out, keep), "DER input is returned unchanged")
		verifReach("der")
	}
	verifReach("end")
}
