package drbg

import (
	"crypto/cipher"
	"errors"
	"hash"
	"io"
	"time"
)

// C17 harnesses: one DRBG operation from an ARBITRARY working state against SP 800-90A Rev.1
// (and the GM/T 0105 deviations the repository documents), over an uninterpreted hash (UF-H) /
// block cipher (UF-E).  Arbitrary interleavings of Generate/Reseed follow by induction.

// ---- UF-H: hash.Hash whose digest is an uninterpreted function of the absorbed bytes ----

type c17Hash struct {
	size int
	buf  []byte
}

func (h *c17Hash) Write(p []byte) (int, error) {
	h.buf = append(h.buf[:len(h.buf):len(h.buf)], p...)
	return len(p), nil
}
func (h *c17Hash) Sum(b []byte) []byte { return append(b, c17H(h.size, h.buf)...) }
func (h *c17Hash) Reset()              { h.buf = nil }
func (h *c17Hash) Size() int           { return h.size }
func (h *c17Hash) BlockSize() int      { return 64 }

func c17H(size int, data []byte) []byte { return verifUF("H", size, data) }

func c17NewHash(size int) func() hash.Hash {
	return func() hash.Hash { return &c17Hash{size: size} }
}

// ---- UF-E block cipher ----

type c17Block struct {
	key []byte
	bs  int
}

func (b *c17Block) BlockSize() int { return b.bs }
func (b *c17Block) Encrypt(dst, src []byte) {
	copy(dst[:b.bs], verifPerm("E", false, b.key, src[:b.bs]))
}
func (b *c17Block) Decrypt(dst, src []byte) {
	copy(dst[:b.bs], verifPerm("E", true, b.key, src[:b.bs]))
}
func c17Provider(key []byte) (cipher.Block, error) {
	return &c17Block{key: append([]byte(nil), key...), bs: 16}, nil
}
func c17E(key, x []byte) []byte { return verifPerm("E", false, key, x) }

// ---- common reference helpers ----

func c17Cat(parts ...[]byte) []byte {
	var out []byte
	for _, p := range parts {
		out = append(out, p...)
	}
	return out
}

// (a + b) mod 2^(8*len(a)); b may be shorter (right aligned): schoolbook addition, one byte at a time
// with a 16-bit running carry.  That this is addition of the big-endian integers is verifH_c17_add_lemma.
func c17Add(a, b []byte) []byte {
	bb := make([]byte, len(a))
	copy(bb[len(a)-len(b):], b)
	out := make([]byte, len(a))
	var temp uint16
	for i := len(a) - 1; i >= 0; i-- {
		temp += uint16(bb[i]) + uint16(a[i])
		out[i] = byte(temp & 0xff)
		temp >>= 8
	}
	return out
}

// The byte-wise adders of the library (add, addOne) and of the reference (c17Add) equal addition of
// big-endian integers modulo 2^(8n), computed here on 64-bit limbs with math/bits-free carries.
func verifH_c17_add_lemma() {
	n := verifParam("n")
	a := verifBytes("a", n)
	b := verifBytes("b", n)
	// limb addition, least significant limb first
	want := make([]byte, n)
	var carry uint64
	for hi := n; hi > 0; hi -= 8 {
		lo := hi - 8
		if lo < 0 {
			lo = 0
		}
		var x, y uint64
		for i := lo; i < hi; i++ {
			x = x<<8 | uint64(a[i])
			y = y<<8 | uint64(b[i])
		}
		w := uint(8 * (hi - lo))
		s := x + y + carry
		if w == 64 {
			c1 := verifIteU64(x+y < x, 1, 0)
			c2 := verifIteU64(s < x+y, 1, 0)
			carry = c1 | c2
		} else {
			carry = s >> w
		}
		for i := hi - 1; i >= lo; i-- {
			want[i] = byte(s)
			s >>= 8
		}
	}
	verifAssert(verifEqBytes(c17Add(a, b), want), "reference adder is integer addition mod 2^(8n)")
	r := append([]byte(nil), b...)
	add(a, r, n)
	verifAssert(verifEqBytes(r, want), "drbg.add is integer addition mod 2^(8n)")
	one := make([]byte, n)
	one[n-1] = 1
	d := append([]byte(nil), a...)
	addOne(d, n)
	verifAssert(verifEqBytes(d, c17Add(a, one)), "drbg.addOne adds one")
	verifReach("end")
}

func c17U64(x uint64) []byte {
	out := make([]byte, 8)
	for i := 0; i < 8; i++ {
		out[7-i] = byte(x >> (8 * uint(i)))
	}
	return out
}

func c17Interval(level int) (uint64, int64) {
	switch level {
	case 2:
		return 1 << 10, 60e9
	case 0x99:
		return 8, 6e9
	}
	return 1 << 20, 600e9
}

func c17Base(level int, gm bool, counter uint64, elapsed int64) BaseDrbg {
	var b BaseDrbg
	b.gm = gm
	b.setSecurityLevel(SecurityLevel(level))
	b.reseedCounter = counter
	b.reseedTime = verifTimeAgo(elapsed)
	return b
}

func c17NeedReseed(level int, gm bool, counter uint64, elapsed int64) bool {
	ci, ti := c17Interval(level)
	return verifAny(counter > ci, verifAll(gm, elapsed > ti))
}

// =============== Hash_DRBG (SP 800-90A 10.1.1, 10.3.1) ===============

func c17HashDf(hs int, in []byte, n int) []byte {
	var out []byte
	bits := uint32(n) * 8
	for ctr := byte(1); len(out) < n; ctr++ {
		out = append(out, c17H(hs, c17Cat([]byte{ctr, byte(bits >> 24), byte(bits >> 16), byte(bits >> 8), byte(bits)}, in))...)
	}
	return out[:n]
}

func c17SeedLen(hs int) int {
	if hs <= 32 {
		return 55
	}
	return 111
}

func c17HashState(hs, level int, gm bool, counter uint64, elapsed int64) *HashDrbg {
	sl := c17SeedLen(hs)
	hd := &HashDrbg{BaseDrbg: c17Base(level, gm, counter, elapsed), newHash: c17NewHash(hs), hashSize: hs}
	hd.seedLength = sl
	hd.v = verifBytes("V", sl)
	hd.c = verifBytes("C", sl)
	return hd
}

func verifH_c17_hash_generate() {
	hs, level, n, alen := verifParam("hs"), verifParam("level"), verifParam("n"), verifParam("alen")
	gm := verifParam("gm") == 1
	counter := verifU64("counter")
	elapsed := int64(verifInt("elapsed", 0, 1<<42))
	hd := c17HashState(hs, level, gm, counter, elapsed)
	sl := hd.seedLength
	v0 := append([]byte(nil), hd.v...)
	c0 := append([]byte(nil), hd.c...)
	add := verifBytes("add", alen)
	out := verifBytes("out", n)
	out0 := append([]byte(nil), out...)
	err := hd.Generate(out, add)
	need := c17NeedReseed(level, gm, counter, elapsed)
	verifAssert((err == ErrReseedRequired) == need, "Generate refuses with ErrReseedRequired exactly when a reseed is due")
	tooMany := (gm && n > hs) || (!gm && n > MAX_BYTES_PER_GENERATE)
	if err != nil {
		verifAssert(need || tooMany, "no other error")
		verifAssert(verifEqBytes(hd.v, v0) && verifEqBytes(hd.c, c0) && hd.reseedCounter == counter, "refused Generate leaves the state untouched")
		verifAssert(verifEqBytes(out, out0), "refused Generate leaves the output buffer untouched")
		verifReach("end")
		return
	}
	verifAssert(!tooMany, "request above the per-call limit is refused")
	// reference
	v := v0
	if alen > 0 {
		v = c17Add(v, c17H(hs, c17Cat([]byte{2}, v, add)))
	}
	var want []byte
	if gm {
		want = c17H(hs, v)[:n]
	} else {
		data := v
		for len(want) < n {
			want = append(want, c17H(hs, data)...)
			data = c17Add(data, []byte{1})
		}
		want = want[:n]
	}
	h := c17H(hs, c17Cat([]byte{3}, v))
	v = c17Add(c17Add(c17Add(v, h), c0), c17U64(counter))
	verifAssert(verifEqBytes(out, want), "Hash_DRBG output bytes")
	verifAssert(len(hd.v) == sl && verifEqBytes(hd.v, v), "Hash_DRBG V after Generate")
	verifAssert(verifEqBytes(hd.c, c0), "C unchanged by Generate")
	verifAssert(hd.reseedCounter == counter+1, "reseed counter incremented")
	verifReach("end")
}

func verifH_c17_hash_reseed() {
	hs, level, elen, alen := verifParam("hs"), verifParam("level"), verifParam("elen"), verifParam("alen")
	gm := verifParam("gm") == 1
	counter := verifU64("counter")
	hd := c17HashState(hs, level, gm, counter, int64(verifInt("elapsed", 0, 1<<42)))
	sl := hd.seedLength
	v0 := append([]byte(nil), hd.v...)
	c0 := append([]byte(nil), hd.c...)
	ent := verifBytes("ent", elen)
	add := verifBytes("add", alen)
	err := hd.Reseed(ent, add)
	bad := elen == 0 || (gm && elen < hs)
	verifAssert((err != nil) == bad, "Reseed refuses exactly too-short entropy")
	if err != nil {
		verifAssert(verifEqBytes(hd.v, v0) && verifEqBytes(hd.c, c0) && hd.reseedCounter == counter, "refused Reseed leaves the state untouched")
		verifReach("end")
		return
	}
	var sm []byte
	if gm {
		sm = c17Cat([]byte{1}, ent, v0, add)
	} else {
		sm = c17Cat([]byte{1}, v0, ent, add)
	}
	v := c17HashDf(hs, sm, sl)
	c := c17HashDf(hs, c17Cat([]byte{0}, v), sl)
	verifAssert(verifEqBytes(hd.v, v) && verifEqBytes(hd.c, c), "Hash_DRBG state after Reseed")
	verifAssert(hd.reseedCounter == 1, "reseed counter reset to 1")
	verifAssert(!hd.NeedReseed(), "no reseed due right after a reseed")
	verifReach("end")
}

func verifH_c17_hash_new() {
	hs, level, elen, nlen, plen := verifParam("hs"), verifParam("level"), verifParam("elen"), verifParam("nlen"), verifParam("plen")
	gm := verifParam("gm") == 1
	ent, nonce, pers := verifBytes("ent", elen), verifBytes("nonce", nlen), verifBytes("pers", plen)
	hd, err := NewHashDrbg(c17NewHash(hs), SecurityLevel(level), gm, ent, nonce, pers)
	bad := elen == 0 || nlen == 0 || (gm && (elen < hs || nlen < hs/2))
	verifAssert((err != nil) == bad, "instantiate refuses exactly too-short entropy/nonce")
	if err == nil {
		sl := c17SeedLen(hs)
		v := c17HashDf(hs, c17Cat(ent, nonce, pers), sl)
		c := c17HashDf(hs, c17Cat([]byte{0}, v), sl)
		verifAssert(hd.seedLength == sl && verifEqBytes(hd.v, v) && verifEqBytes(hd.c, c), "Hash_DRBG state after instantiate")
		verifAssert(hd.reseedCounter == 1 && !hd.NeedReseed(), "reseed counter starts at 1")
		ci, _ := c17Interval(level)
		verifAssert(hd.reseedIntervalInCounter == ci, "interval of the security level")
	}
	verifReach("end")
}

// =============== HMAC_DRBG (10.1.2) ===============

func c17HMAC(hs int, key, msg []byte) []byte {
	k := make([]byte, 64)
	if len(key) > 64 {
		copy(k, c17H(hs, key))
	} else {
		copy(k, key)
	}
	ip := make([]byte, 64)
	op := make([]byte, 64)
	for i := range k {
		ip[i] = k[i] ^ 0x36
		op[i] = k[i] ^ 0x5c
	}
	return c17H(hs, c17Cat(op, c17H(hs, c17Cat(ip, msg))))
}

func c17HmacUpdate(hs int, k, v, data []byte) ([]byte, []byte) {
	k = c17HMAC(hs, k, c17Cat(v, []byte{0}, data))
	v = c17HMAC(hs, k, v)
	if len(data) == 0 {
		return k, v
	}
	k = c17HMAC(hs, k, c17Cat(v, []byte{1}, data))
	v = c17HMAC(hs, k, v)
	return k, v
}

func c17HmacState(hs, level int, gm bool, counter uint64, elapsed int64) *HmacDrbg {
	hd := &HmacDrbg{BaseDrbg: c17Base(level, gm, counter, elapsed), newHash: c17NewHash(hs), hashSize: hs}
	hd.v = verifBytes("V", hs)
	hd.key = verifBytes("K", hs)
	return hd
}

func verifH_c17_hmac_generate() {
	hs, level, n, alen := verifParam("hs"), verifParam("level"), verifParam("n"), verifParam("alen")
	gm := verifParam("gm") == 1
	counter := verifU64("counter")
	elapsed := int64(verifInt("elapsed", 0, 1<<42))
	hd := c17HmacState(hs, level, gm, counter, elapsed)
	v0 := append([]byte(nil), hd.v...)
	k0 := append([]byte(nil), hd.key...)
	add := verifBytes("add", alen)
	out := verifBytes("out", n)
	out0 := append([]byte(nil), out...)
	err := hd.Generate(out, add)
	need := c17NeedReseed(level, gm, counter, elapsed)
	verifAssert((err == ErrReseedRequired) == need, "Generate refuses with ErrReseedRequired exactly when a reseed is due")
	if err != nil {
		verifAssert(need, "no other error")
		verifAssert(verifEqBytes(hd.v, v0) && verifEqBytes(hd.key, k0) && hd.reseedCounter == counter, "refused Generate leaves the state untouched")
		verifAssert(verifEqBytes(out, out0), "refused Generate leaves the output buffer untouched")
		verifReach("end")
		return
	}
	k, v := k0, v0
	if alen > 0 {
		k, v = c17HmacUpdate(hs, k, v, add)
	}
	var want []byte
	for len(want) < n {
		v = c17HMAC(hs, k, v)
		want = append(want, v...)
	}
	want = want[:n]
	k, v = c17HmacUpdate(hs, k, v, add)
	verifAssert(verifEqBytes(out, want), "HMAC_DRBG output bytes")
	verifAssert(verifEqBytes(hd.key, k) && verifEqBytes(hd.v, v), "HMAC_DRBG (Key,V) after Generate")
	verifAssert(hd.reseedCounter == counter+1, "reseed counter incremented")
	verifReach("end")
}

func verifH_c17_hmac_reseed() {
	hs, level, elen, alen := verifParam("hs"), verifParam("level"), verifParam("elen"), verifParam("alen")
	gm := verifParam("gm") == 1
	counter := verifU64("counter")
	hd := c17HmacState(hs, level, gm, counter, int64(verifInt("elapsed", 0, 1<<42)))
	v0 := append([]byte(nil), hd.v...)
	k0 := append([]byte(nil), hd.key...)
	ent := verifBytes("ent", elen)
	add := verifBytes("add", alen)
	err := hd.Reseed(ent, add)
	bad := elen == 0 || (gm && elen < hs)
	verifAssert((err != nil) == bad, "Reseed refuses exactly too-short entropy")
	if err != nil {
		verifAssert(verifEqBytes(hd.v, v0) && verifEqBytes(hd.key, k0) && hd.reseedCounter == counter, "refused Reseed leaves the state untouched")
		verifReach("end")
		return
	}
	k, v := c17HmacUpdate(hs, k0, v0, c17Cat(ent, add))
	verifAssert(verifEqBytes(hd.key, k) && verifEqBytes(hd.v, v), "HMAC_DRBG state after Reseed")
	verifAssert(hd.reseedCounter == 1, "reseed counter reset to 1")
	verifAssert(!hd.NeedReseed(), "no reseed due right after a reseed")
	verifReach("end")
}

func verifH_c17_hmac_new() {
	hs, level, elen, nlen, plen := verifParam("hs"), verifParam("level"), verifParam("elen"), verifParam("nlen"), verifParam("plen")
	gm := verifParam("gm") == 1
	ent, nonce, pers := verifBytes("ent", elen), verifBytes("nonce", nlen), verifBytes("pers", plen)
	hd, err := NewHmacDrbg(c17NewHash(hs), SecurityLevel(level), gm, ent, nonce, pers)
	verifAssert((err != nil) == (elen == 0 || nlen == 0), "instantiate refuses exactly empty entropy/nonce")
	if err == nil {
		k := make([]byte, hs)
		v := make([]byte, hs)
		for i := range v {
			v[i] = 1
		}
		k, v = c17HmacUpdate(hs, k, v, c17Cat(ent, nonce, pers))
		verifAssert(verifEqBytes(hd.key, k) && verifEqBytes(hd.v, v), "HMAC_DRBG state after instantiate")
		verifAssert(hd.reseedCounter == 1 && !hd.NeedReseed(), "reseed counter starts at 1")
	}
	verifReach("end")
}

// =============== CTR_DRBG with derivation function (10.2.1, 10.3.2, 10.3.3) ===============

func c17Xor(a, b []byte) []byte {
	out := append([]byte(nil), a...)
	for i := range b {
		if i < len(out) {
			out[i] ^= b[i]
		}
	}
	return out
}

func c17BCC(key, data []byte) []byte {
	cv := make([]byte, 16)
	for i := 0; i+16 <= len(data); i += 16 {
		cv = c17E(key, c17Xor(cv, data[i:i+16]))
	}
	return cv
}

func c17U32(x int) []byte { return []byte{byte(x >> 24), byte(x >> 16), byte(x >> 8), byte(x)} }

// Block_Cipher_df
func c17BlockDf(keyLen int, in []byte, n int) []byte {
	seedLen := keyLen + 16
	s := c17Cat(c17U32(len(in)), c17U32(n), in, []byte{0x80})
	for len(s)%16 != 0 {
		s = append(s, 0)
	}
	k := make([]byte, keyLen)
	for i := range k {
		k[i] = byte(i)
	}
	var temp []byte
	for i := 0; len(temp) < seedLen; i++ {
		iv := append(c17U32(i), make([]byte, 12)...)
		temp = append(temp, c17BCC(k, c17Cat(iv, s))...)
	}
	k2 := temp[:keyLen]
	x := temp[keyLen:seedLen]
	var out []byte
	for len(out) < n {
		x = c17E(k2, x)
		out = append(out, x...)
	}
	return out[:n]
}

// CTR_DRBG_Update
func c17CtrUpdate(keyLen int, key, v, data []byte) ([]byte, []byte) {
	seedLen := keyLen + 16
	var temp []byte
	for len(temp) < seedLen {
		v = c17Add(v, []byte{1})
		temp = append(temp, c17E(key, v)...)
	}
	temp = c17Xor(temp[:seedLen], data)
	return temp[:keyLen], temp[keyLen:]
}

func c17CtrState(keyLen, level int, gm bool, counter uint64, elapsed int64) *CtrDrbg {
	hd := &CtrDrbg{BaseDrbg: c17Base(level, gm, counter, elapsed), cipherProvider: c17Provider, keyLen: keyLen}
	hd.seedLength = keyLen + 16
	hd.v = verifBytes("V", 16)
	hd.key = verifBytes("K", keyLen)
	return hd
}

func verifH_c17_ctr_generate() {
	kl, level, n, alen := verifParam("kl"), verifParam("level"), verifParam("n"), verifParam("alen")
	gm := verifParam("gm") == 1
	counter := verifU64("counter")
	elapsed := int64(verifInt("elapsed", 0, 1<<42))
	hd := c17CtrState(kl, level, gm, counter, elapsed)
	v0 := append([]byte(nil), hd.v...)
	k0 := append([]byte(nil), hd.key...)
	add := verifBytes("add", alen)
	out := verifBytes("out", n)
	out0 := append([]byte(nil), out...)
	err := hd.Generate(out, add)
	need := c17NeedReseed(level, gm, counter, elapsed)
	verifAssert((err == ErrReseedRequired) == need, "Generate refuses with ErrReseedRequired exactly when a reseed is due")
	tooMany := (gm && n > 16) || (!gm && n > MAX_BYTES_PER_GENERATE)
	if err != nil {
		verifAssert(need || tooMany, "no other error")
		verifAssert(verifEqBytes(hd.v, v0) && verifEqBytes(hd.key, k0) && hd.reseedCounter == counter, "refused Generate leaves the state untouched")
		verifAssert(verifEqBytes(out, out0), "refused Generate leaves the output buffer untouched")
		verifReach("end")
		return
	}
	verifAssert(!tooMany, "request above the per-call limit is refused")
	k, v := k0, v0
	ad := make([]byte, kl+16)
	if alen > 0 {
		ad = c17BlockDf(kl, add, kl+16)
		k, v = c17CtrUpdate(kl, k, v, ad)
	}
	var want []byte
	for len(want) < n {
		v = c17Add(v, []byte{1})
		want = append(want, c17E(k, v)...)
	}
	want = want[:n]
	k, v = c17CtrUpdate(kl, k, v, ad)
	verifAssert(verifEqBytes(out, want), "CTR_DRBG output bytes")
	verifAssert(verifEqBytes(hd.key, k) && verifEqBytes(hd.v, v), "CTR_DRBG (Key,V) after Generate")
	verifAssert(hd.reseedCounter == counter+1, "reseed counter incremented")
	verifReach("end")
}

func verifH_c17_ctr_reseed() {
	kl, level, elen, alen := verifParam("kl"), verifParam("level"), verifParam("elen"), verifParam("alen")
	gm := verifParam("gm") == 1
	counter := verifU64("counter")
	hd := c17CtrState(kl, level, gm, counter, int64(verifInt("elapsed", 0, 1<<42)))
	v0 := append([]byte(nil), hd.v...)
	k0 := append([]byte(nil), hd.key...)
	ent := verifBytes("ent", elen)
	add := verifBytes("add", alen)
	err := hd.Reseed(ent, add)
	bad := elen == 0 || (gm && elen < 32)
	verifAssert((err != nil) == bad, "Reseed refuses exactly too-short entropy")
	if err != nil {
		verifAssert(verifEqBytes(hd.v, v0) && verifEqBytes(hd.key, k0) && hd.reseedCounter == counter, "refused Reseed leaves the state untouched")
		verifReach("end")
		return
	}
	sm := c17BlockDf(kl, c17Cat(ent, add), kl+16)
	k, v := c17CtrUpdate(kl, k0, v0, sm)
	verifAssert(verifEqBytes(hd.key, k) && verifEqBytes(hd.v, v), "CTR_DRBG state after Reseed")
	verifAssert(hd.reseedCounter == 1, "reseed counter reset to 1")
	verifAssert(!hd.NeedReseed(), "no reseed due right after a reseed")
	verifReach("end")
}

func verifH_c17_ctr_new() {
	kl, level, elen, nlen, plen := verifParam("kl"), verifParam("level"), verifParam("elen"), verifParam("nlen"), verifParam("plen")
	gm := verifParam("gm") == 1
	ent, nonce, pers := verifBytes("ent", elen), verifBytes("nonce", nlen), verifBytes("pers", plen)
	hd, err := NewCtrDrbg(c17Provider, kl, SecurityLevel(level), gm, ent, nonce, pers)
	bad := elen == 0 || nlen == 0 || (gm && (elen < 32 || nlen < 16))
	verifAssert((err != nil) == bad, "instantiate refuses exactly too-short entropy/nonce")
	if err == nil {
		sm := c17BlockDf(kl, c17Cat(ent, nonce, pers), kl+16)
		k, v := c17CtrUpdate(kl, make([]byte, kl), make([]byte, 16), sm)
		verifAssert(verifEqBytes(hd.key, k) && verifEqBytes(hd.v, v), "CTR_DRBG state after instantiate")
		verifAssert(hd.reseedCounter == 1 && !hd.NeedReseed(), "reseed counter starts at 1")
	}
	verifReach("end")
}

// =============== concrete-counter twin: the interval really is "interval" calls ===============

func verifH_c17_interval() {
	mech := verifParam("mech")
	reseedAt := verifParam("reseedat") // 0: never; k: reseed after the k-th successful call
	ent, nonce := verifBytes("ent", 32), verifBytes("nonce", 16)
	var d DRBG
	switch mech {
	case 0:
		d, _ = NewHashDrbg(c17NewHash(32), SECURITY_LEVEL_TEST, false, ent, nonce, nil)
	case 1:
		d, _ = NewHmacDrbg(c17NewHash(32), SECURITY_LEVEL_TEST, false, ent, nonce, nil)
	default:
		d, _ = NewCtrDrbg(c17Provider, 16, SECURITY_LEVEL_TEST, false, ent, nonce, nil)
	}
	ok := 0
	for call := 1; call <= 20; call++ {
		out := make([]byte, 8)
		err := d.Generate(out, nil)
		if err == nil {
			ok++
			verifAssert(ok <= 8, "at most 8 generate calls per seed at test level")
			verifAssert(d.NeedReseed() == (ok == 8), "NeedReseed turns true after the 8th call")
			if ok == reseedAt {
				verifAssert(d.Reseed(verifBytes("re", 32), nil) == nil, "reseed succeeds")
				ok = 0
			}
		} else {
			verifAssert(err == ErrReseedRequired && ok == 8, "refusal only after exactly 8 calls")
			verifAssert(out[0] == 0 && out[7] == 0, "refused call leaves output untouched")
			if call > 17 {
				break
			}
		}
	}
	verifReach("end")
}

// =============== DrbgPrng.Read over an abstract DRBG and a scripted entropy source ===============

type c17Script struct {
	calls  int
	failAt int // call index (1-based) at which the source misbehaves; 0 = never
	mode   int // 1: error; 2: short read
	given  [][]byte
}

var c17ErrSource = errors.New("entropy source failed")

func (s *c17Script) Read(p []byte) (int, error) {
	s.calls++
	if s.calls == s.failAt {
		if s.mode == 1 {
			return 0, c17ErrSource
		}
		if len(p) > 0 {
			return len(p) - 1, nil
		}
	}
	b := verifBytes("entropy", len(p))
	copy(p, b)
	s.given = append(s.given, b)
	return len(p), nil
}

var _ io.Reader = (*c17Script)(nil)

// abstract DRBG: refuses after `left` successful calls until reseeded; outputs fresh symbolic bytes
type c17Abstract struct {
	left     int
	interval int
	max      int
	reseeds  [][]byte
	produced []byte
	reqs     []int
}

func (d *c17Abstract) NeedReseed() bool { return d.left == 0 }
func (d *c17Abstract) Reseed(entropy, additional []byte) error {
	d.reseeds = append(d.reseeds, append([]byte(nil), entropy...))
	d.left = d.interval
	return nil
}
func (d *c17Abstract) Generate(b, additional []byte) error {
	if d.left == 0 {
		return ErrReseedRequired
	}
	if len(b) > d.max {
		return errors.New("too many bytes")
	}
	d.left--
	o := verifBytes("gen", len(b))
	copy(b, o)
	d.produced = append(d.produced, o...)
	d.reqs = append(d.reqs, len(b))
	return nil
}
func (d *c17Abstract) MaxBytesPerRequest() int { return d.max }

func verifH_c17_prng_read() {
	n, max, left, interval := verifParam("n"), verifParam("max"), verifParam("left"), verifParam("interval")
	failAt, mode := verifParam("failat"), verifParam("mode")
	strength := verifParam("strength")
	src := &c17Script{failAt: failAt, mode: mode}
	d := &c17Abstract{left: left, interval: interval, max: max}
	prng := &DrbgPrng{entropySource: src, securityStrength: strength, impl: d}
	data := verifBytes("data", n)
	cnt, err := prng.Read(data)
	failed := failAt > 0 && src.calls >= failAt
	verifAssert((err != nil) == failed, "Read reports an error exactly when the entropy source failed or was short")
	if err != nil {
		verifAssert(cnt == 0, "failed Read returns 0")
	} else {
		verifAssert(cnt == n, "Read returns exactly the requested number of bytes")
		verifAssert(verifEqBytes(data, d.produced), "bytes are the concatenation of the generator's outputs, in order")
		for _, r := range d.reqs {
			verifAssert(r <= max && r > 0, "every request respects the per-request maximum")
		}
		verifAssert(len(d.reseeds) == len(src.given), "every entropy block read was used for a reseed")
		for i := range d.reseeds {
			verifAssert(len(d.reseeds[i]) == strength && verifEqBytes(d.reseeds[i], src.given[i]), "reseed uses exactly securityStrength fresh entropy bytes")
		}
	}
	verifReach("end")
}

// constructor of the wrapper: entropy and nonce come from the source; a failing/short source is an error
func verifH_c17_prng_new() {
	mech := verifParam("mech")
	failAt, mode := verifParam("failat"), verifParam("mode")
	src := &c17Script{failAt: failAt, mode: mode}
	var p *DrbgPrng
	var err error
	switch mech {
	case 0:
		p, err = NewHashDrbgPrng(c17NewHash(32), src, 32, true, SECURITY_LEVEL_TEST, nil)
	case 1:
		p, err = NewHmacDrbgPrng(c17NewHash(32), src, 32, false, SECURITY_LEVEL_TEST, nil)
	default:
		p, err = NewCtrDrbgPrng(c17Provider, 16, src, 32, true, SECURITY_LEVEL_TEST, nil)
	}
	verifAssert((err != nil) == (failAt == 1 || failAt == 2), "constructor fails exactly when the source fails during instantiation")
	if err == nil {
		verifAssert(p != nil && src.calls == 2 && len(src.given[0]) == 32 && len(src.given[1]) == 16, "entropy (32) then nonce (16) are read")
	} else {
		verifAssert(p == nil, "no generator on failure")
	}
	verifReach("end")
}

var _ = time.Now
