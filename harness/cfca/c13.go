package cfca

// C13 (cfca): DecryptBySM4CBC on a ciphertext of any length: an error or a value, never a panic.
func verifH_c13_cfca_decrypt() {
	n := verifParam("n")
	ct := verifBytes("ct", n)
	pt, err := DecryptBySM4CBC(ct, []byte("password"))
	if n == 0 || n%16 != 0 {
		verifAssert(err != nil && pt == nil, "a ciphertext that is not a positive number of blocks is refused with an error")
	}
	verifReach("end")
}

// EncryptBySM4CBC then DecryptBySM4CBC returns the message
func verifH_c13_cfca_roundtrip() {
	n := verifParam("n")
	msg := verifBytes("msg", n)
	keep := append([]byte(nil), msg...)
	ct, err := EncryptBySM4CBC(msg, []byte("password"))
	verifAssert(err == nil && len(ct)%16 == 0 && len(ct) > n, "ciphertext is whole blocks")
	pt, err := DecryptBySM4CBC(ct, []byte("password"))
	verifAssert(err == nil && verifEqBytes(pt, keep), "decrypt(encrypt(m)) == m")
	verifReach("end")
}
