#!/bin/bash
# usage: run_seeds.sh [seed-id ...]  -- applies each seeded change listed in seeded/CATCHES.tsv to /repo, runs the
# check that is expected to catch it (quick tier, filtered), reverts, and prints one line per seed.
# Mutates /repo while it runs: do not run anything else against /repo meanwhile; re-run the touched checks on the
# clean tree afterwards (their evidence files are overwritten by these runs).
cd /verif || exit 9
grep -v '^#' seeded/CATCHES.tsv | while IFS=$'\t' read -r seed check filter; do
  [ -z "$seed" ] && continue
  if [ $# -gt 0 ] && ! printf '%s\n' "$@" | grep -qx "$seed"; then continue; fi
  out=$(FILTER="$filter" TAILN=40 tools/try_seed.sh /verif/seeded/$seed/patch.diff $check 2>&1)
  rc=$(echo "$out" | grep -o 'exit=[0-9]*' | tail -1)
  v=$(echo "$out" | grep -c '^VIOLATION')
  echo "$seed -> $check [$filter]: $rc violations=$v"
done
