#!/bin/bash
# usage: try_seed.sh <patch.diff> <check-id> [tier] -- applies the patch to /repo, runs the check, reverts
patch=$1; id=$2; tier=${3:-quick}
cd /repo || exit 9
if ! git diff --quiet; then echo "repo dirty"; exit 9; fi
git apply "$patch" || { echo "patch does not apply"; exit 9; }
cd /verif && ${BIN:-./bin/gmsmverif} check $id --tier $tier ${FILTER:+--filter "$FILTER"} 2>&1 | grep -v "^KNOWN" | tail -${TAILN:-6}
rc=${PIPESTATUS[0]}
git -C /repo checkout -- . 
echo "exit=$rc"
