#!/usr/bin/env python3
# Regenerates /verif/MANIFEST.json from the table below (claimed checks) + properties.jsonl (not_applicable for the rest).
import json
props=[json.loads(l)['id'] for l in open('/verif/properties.jsonl')]
B="/verif/bin/gmsmverif"
NOTE_COMMON=("Trusted: go/packages+go/ssa lowering of /repo's working tree, the gosym executor's SSA semantics and library contracts, "
 "the reference models in /verif/harness (written from the standards), z3 (cross-checked on a sample of queries with z3 5.1). "
 "Bounded: concrete lengths/sizes per case, symbolic byte contents; assembly bodies are outside (contract models).")
claimed={
 "C18":dict(text="Bounded symbolic model checking of the real padding code (go/ssa -> SMT): for each (scheme, block size, length, spare-capacity) case the message bytes, the spare-capacity bytes and candidate padded strings are symbolic, Pad is compared with a reference written from the standards, Unpad∘Pad=id, and the accept set of Unpad is shown to contain only strings Pad produces; every Go run-time panic on a feasible path is a violation. Exhaustive over contents inside the stated size bounds; thorough covers every block size 1..255.",
   ref="DESIGN.md section 4 C18", technique="bounded symbolic execution of go/ssa with SMT (z3) discharge; counterexamples replayed natively"),
 "C19":dict(text="Bounded symbolic model checking of the real cbcmac code over an uninterpreted keyed permutation (UF-E): for every key and every message content of each length 0..3 blocks+1 (thorough: 5 blocks+1), block size 8/16 and tag size, each of the eight constructions is compared with a reference written from ISO/IEC 9797-1 / GB/T 15852.1; CMAC streaming is checked for every 3-way write split with interleaved Sum on fresh, Reset and previously used objects; injectivity of the final-block transformations is an SMT query using the permutation axioms. One known finding (CBCR0 shift instead of rotation, pinned by an existing test vector) is reported as KNOWN-FINDING.",
   ref="DESIGN.md section 4 C19", technique="bounded symbolic execution of go/ssa over an uninterpreted block cipher, SMT (z3 5.1, cvc5 cross-check) discharge; counterexamples replayed natively"),
 "C03":dict(text="Bounded symbolic model checking of the real mode code over an uninterpreted block cipher (UF-E): generic XTS (IEEE and GB/T variants, single-block and concurrentBlocks batch paths, every byte length up to (2*batch+2) blocks+15 incl. ciphertext stealing, tweak carried across calls, in place / disjoint with canary bytes), ECB/BC/OFBNLF (block sizes 8 and 16, one call vs two calls vs textbook), HCTR (uhash layout, counter path incl. batches, encrypt/decrypt) against references written from IEEE 1619 / GB/T 17964; mul2Generic and hctrDouble are proved equal to their specifications for every input and then summarised. One known finding (HCTR tweak tail, pinned by an existing test vector) is reported as KNOWN-FINDING. Assembly kernels are outside.",
   ref="DESIGN.md section 4 C03", technique="bounded symbolic execution of go/ssa over an uninterpreted block cipher, SMT (z3 5.1, cvc5 cross-check) discharge; counterexamples replayed natively"),
 "C17":dict(text="Bounded symbolic model checking of the real drbg code over an uninterpreted hash / block cipher: each of instantiate, Reseed and Generate of Hash_DRBG, HMAC_DRBG and CTR_DRBG (NIST and GM variants) is executed once from an ARBITRARY working state (V, C/Key symbolic, reseed counter an arbitrary uint64, elapsed time an arbitrary duration) and compared with SP 800-90A Rev.1 transcribed in the harness, so every interleaving of operations follows by induction; the reseed gate is decided symbolically (refusal iff counter > interval or, in GM mode, elapsed > time interval; refused calls leave state and buffer untouched); the byte-wise adders are proved equal to integer addition; the DrbgPrng reader is checked over an abstract generator and a scripted entropy source failing or running short at any call.",
   ref="DESIGN.md section 4 C17", technique="bounded symbolic execution of go/ssa over uninterpreted hash/cipher, one inductive step per operation, SMT (z3 5.1, cvc5 cross-check); counterexamples replayed natively"),
 "C01":dict(text="Bounded symbolic model checking of the real SM3 state machine and KDF with the compression function uninterpreted: one Write/Sum/Marshal/Unmarshal/Reset step from an ARBITRARY valid state (every nx 0..63, arbitrary chaining value, arbitrary total length) against GB/T 32905 padding, so digests of arbitrarily long messages and arbitrary call histories follow by induction; the KDF through the real dispatcher of each build (purego kdfGeneric; amd64 kdf/kdfBy4/kdfBy8/prepareInitData on the scalar, SSSE3/AVX and AVX2 tiers with the lane kernels as footprint-checked contracts) for every nx and block-count class against H(z||ct); exported Kdf on used objects and consecutive calls (buffer reuse). The equivalence of blockGeneric with the standard's compression function and the assembly bodies are outside.",
   ref="DESIGN.md section 4 C01", technique="bounded symbolic execution of go/ssa with uninterpreted compression function, one inductive step per operation, SMT (z3 5.1, cvc5 cross-check); counterexamples replayed natively against the real assembly"),
 "C11":dict(text="Bounded symbolic model checking of the real ZUC seekable cipher and MAC code with the keystream generator abstracted (state = stream identity + word counter, keystream words uninterpreted): one XORKeyStream / XORKeyStreamAt operation from an arbitrary state satisfying the representation invariant (positions, seek targets and bucket sizes on a boundary grid, data symbolic) yields src xor keystream at the absolute positions and re-establishes the invariant incl. every checkpoint, so arbitrary call histories follow by induction; 128-EIA3 and the ZUC-256 MAC (4/8/16-byte tags) for every message of 0..33 bytes plus 0..7 extra bits, 3-way write splits, interleaved Sum, reuse after Reset/Finish, against bit-by-bit keystream-window definitions. One known finding (ZUC-256 MAC tail, pinned by existing test vectors) is reported as KNOWN-FINDING. The generator core vs GM/T 0001 and the assembly are outside.",
   ref="DESIGN.md section 4 C11", technique="bounded symbolic execution of go/ssa with uninterpreted keystream, inductive step from an arbitrary invariant-satisfying state, term normalisation + SMT (z3 5.1, cvc5 cross-check); counterexamples replayed natively against the real generator"),
 "C04":dict(text="Bounded symbolic model checking of the real AEAD code over an uninterpreted block cipher: CCM Seal/Open (generic Go incl. the real crypto/cipher CTR) against RFC 3610 for nonce sizes 7..13, tag sizes 4..16, plaintexts 0..33 (65) bytes, AAD classes incl. the 0xff00 length-encoding boundary; GCM Seal/Open of the table-driven Go implementation and of the Go wrapper around the fused assembly (kernels as contract models, GF(2^128) multiplication uninterpreted) against SP 800-38D on the SSE and AVX2 batch sizes, nonce sizes incl. non-96-bit (symbolic J0, counter wrap), tag sizes 12..16; Seal only appends; Open succeeds iff the tag recomputed over exactly the received fields equals the received tag, and on failure returns nil with the output region zeroed and the dst prefix untouched.",
   ref="DESIGN.md section 4 C04", technique="bounded symbolic execution of go/ssa over uninterpreted block cipher and field multiplication, SMT (z3 5.1, cvc5 cross-check); counterexamples replayed natively against the real assembly"),
 "C02":dict(text="Symbolic model checking of the real pure-Go SM4: for every 32-bit word t, t2 and the table-driven precompute_t equal L∘τ / L'∘τ (S-box table as given constant, precomputed tables proved consistent with it); for every key schedule and block encryptBlockGo equals the 32-round structure of GB/T 32907 and the reversed schedule inverts it; for every key expandKeyGo equals the standard's key schedule with FK/CK recomputed from the standard; NewCipher accepts exactly 16-byte keys (lengths 0..64) and Encrypt/Decrypt panic exactly on short buffers; on the asm build the Go dispatch around the kernels (SSE/AVX/AVX2 tiers, single-block AES-NI path, one and two batches, in place or not) equals E/D of the key with the kernels as contract models validated natively against the real assembly. Not bounded in the data: every obligation quantifies over all keys/blocks/words.",
   ref="DESIGN.md section 4 C02", technique="symbolic execution of go/ssa, word-level lemmas discharged by SMT (z3 5.1, cvc5 cross-check), structural equivalence with uninterpreted T; counterexamples replayed natively"),
}
NA={
 "C20":"data-race freedom over all schedules needs a concurrent execution model (threads, happens-before, sync/atomic); the go/ssa symbolic executor is sequential by construction and no Go symbolic concurrency engine is available in the image (DESIGN.md section 4 C20)",
}
checks=[]
for pid in props:
    if pid in claimed:
        c=claimed[pid]
        checks.append({"property_id":pid,
          "quick_cmd":f"{B} check {pid} --tier quick",
          "thorough_cmd":f"{B} check {pid} --tier thorough",
          "evidence_file":f"/verif/evidence/{pid}.json",
          "replay_cmd_template":f"{B} replay {{path}}",
          "engine":"gosym",
          "level_claimed":{"category":"model_checking","text":c['text'],"design_ref":c['ref']},
          "level_note":c.get('note',NOTE_COMMON),
          "technique":c['technique']})
na=[]
for pid in props:
    if pid not in claimed:
        na.append({"property_id":pid,"reason":NA.get(pid,"check not built yet (work in progress, see DESIGN.md section 7)")})
m={"version":1,
"setup_cmd":"cd /verif/engine && GOFLAGS=-mod=mod GOPROXY=off GOSUMDB=off GOTOOLCHAIN=local go build -o /verif/bin/gmsmverif ./cmd/gmsmverif",
"hooks":{"guard":"verif","enable":"no source hooks: harness files are injected with go/packages Overlay (engine) and go test -overlay (native replay); nothing is written under /repo","baseline_off_cmd":"cd /repo && GODEBUG=x509sha1=1 go test -mod=mod -vet=off -count=1 -timeout 25m ./...","source_commits":[],"add_only":True},
"engines":[{"name":"gosym","path":"/verif/engine","serves_properties":sorted(claimed),"kind_free_text":"go/ssa symbolic executor emitting SMT-LIB2 for z3/cvc5 (bounded symbolic model checking of the real code), native replay of counterexamples via go test -overlay"}],
"checks":checks,
"notes":"exit codes: 0 held within bounds, 1 confirmed violation (VIOLATION line), 2 inconclusive (solver unknown/timeout, unwinding bound, unconfirmed counterexample, unsupported construct). Genuine defects repaired in /repo by 'fix:' commits are listed in /verif/known_findings.json.",
"not_applicable":na}
json.dump(m,open('/verif/MANIFEST.json','w'),indent=1)
import jsonschema
jsonschema.validate(m,json.load(open('/root/.vp/MANIFEST.schema.json')))
print("MANIFEST ok:",sorted(claimed))
