#!/bin/bash
# kills running checker binaries and their solvers (by exact process name, never by command-line pattern)
for n in gmsmverif gmsmverif.new z3-new cvc5 z3; do for p in $(pgrep -x $n); do kill $p 2>/dev/null; done; done
exit 0
