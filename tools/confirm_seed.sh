#!/bin/bash
# usage: confirm_seed.sh <PropId> <k> [name]   (reads /tmp/seed/out_<PropId>/{patch,demo,meta}<k>)
# Confirms in a scratch worktree of /repo HEAD: demo passes clean, fails patched, suite passes patched.
# On success stores /verif/seeded/<PropId>-<k>/.
id=$1; k=$2; src=/tmp/seed/out_$id
export GOFLAGS=-mod=mod GOPROXY=off GOSUMDB=off GOTOOLCHAIN=local GODEBUG=x509sha1=1
wt=/tmp/seedcheck_$id_$k
git -C /repo worktree remove --force $wt 2>/dev/null; rm -rf $wt
git -C /repo worktree add --detach $wt HEAD -q || exit 9
trap "git -C /repo worktree remove --force $wt; rm -rf $wt" EXIT
demo=$src/demo${k}_test.go
dir=$(grep -m1 -o 'dir: *[A-Za-z0-9_/]*' $demo | sed 's/dir: *//')
[ -z "$dir" ] && { echo "no dir in demo"; exit 9; }
cd $wt
cp $demo $dir/zz_demo${k}_test.go
clean=$(go test -vet=off -count=1 ./$dir/ 2>&1 | tail -3)
echo "clean+demo: $(echo "$clean" | tail -1)"
echo "$clean" | tail -1 | grep -q '^ok' || { echo "DEMO FAILS ON CLEAN TREE"; echo "$clean"; exit 1; }
git apply $src/patch$k.diff || { echo "PATCH DOES NOT APPLY to HEAD"; exit 2; }
pat=$(go test -vet=off -count=1 ./$dir/ 2>&1 | tail -3)
echo "patched+demo: $(echo "$pat" | tail -1)"
echo "$pat" | grep -q 'FAIL' || { echo "DEMO DOES NOT FAIL WITH PATCH"; exit 3; }
rm $dir/zz_demo${k}_test.go
suite=$(go test -vet=off -count=1 ./... 2>&1 | grep -v '^ok\|no test files')
if [ -n "$suite" ]; then echo "SUITE FAILS WITH PATCH:"; echo "$suite" | tail -15; exit 4; fi
echo "suite passes with patch"
d=/verif/seeded/$id-$k; mkdir -p $d
cp $src/patch$k.diff $d/patch.diff; cp $demo $d/demo_test.go
python3 - "$src/meta$k.json" "$d/meta.json" "$dir" <<'PY'
import json,sys
m=json.load(open(sys.argv[1]))
m['demo_dir']=sys.argv[3]
m['confirmed']="scratch worktree of /repo HEAD: demo passes on clean tree, fails with patch; whole suite (GODEBUG=x509sha1=1 go test -vet=off -count=1 ./...) passes with patch"
json.dump(m,open(sys.argv[2],'w'),indent=1)
PY
echo "CONFIRMED -> $d"
