#!/usr/bin/env python3
# prints the sub-agent prompt for a property id (only the property text + its scratch worktree)
import json,sys
pid=sys.argv[1]; n=sys.argv[2] if len(sys.argv)>2 else "2"
p=[json.loads(l) for l in open('/verif/properties.jsonl') if json.loads(l)['id']==pid][0]
print(f"""You are working on a scratch git worktree of the Go library emmansun/gmsm (Chinese ShangMi cryptography: SM2/SM3/SM4/SM9/ZUC, modes, DRBG, X.509/PKCS codecs) at /tmp/seed/{pid}. The sandbox is offline: run Go with `export GOFLAGS=-mod=mod GOPROXY=off GOSUMDB=off GOTOOLCHAIN=local`. Work ONLY inside /tmp/seed/{pid} and /tmp/seed/out_{pid}; never touch /repo or /verif and do not read anything under /verif.

This is a mutation-seeding exercise for evaluating a verification tool. Here is a semantic property that the library is supposed to satisfy:

TITLE: {p['title']}
STATEMENT: {p['statement']}
QUANTIFIER: {p['quantifier']['text']}
ANCHORS (files): {', '.join(p['anchors']['files'])}

Your task: produce {n} DIFFERENT, independent changes to the library's non-test source (Go files, not *_test.go, not assembly unless trivial) each of which BREAKS this property while the library STILL COMPILES and the EXISTING TEST SUITE STILL PASSES (at minimum `go test -vet=off -count=1 ./...` for every package whose code you touched and every package that imports it; ideally the whole suite `go test -vet=off -count=1 ./...` at the root, which takes a few minutes). Each change must be realistic (the kind of slip a maintainer could make in a refactor/optimisation: an off-by-one in a boundary, a wrong constant on a rare branch, state not reset, a check dropped on one path, a length class mishandled) and must need something SPECIFIC to manifest: an unusual input/length class, a multi-step sequence of operations, reuse of an object, a fault (e.g. random source failing) at a particular point, or two cooperating sites that each look fine alone. Do NOT make changes that ordinary use would expose at once, and do not make changes that only affect assembly (.s) files. Prefer changes in the pure Go logic (dispatch, buffering, length arithmetic, state machines, parsers, wrappers around kernels). The tree may already contain genuine bugs; your change must introduce a NEW violation, demonstrated by a test that PASSES on the unmodified tree.

For each change k (1..{n}) deliver in /tmp/seed/out_{pid}/:
  - patch{"{k}"}.diff : output of `git diff` in /tmp/seed/{pid} containing ONLY the library change (apply-able with `git apply` on a clean tree)
  - demo{"{k}"}_test.go : a Go test file (state in a comment at its top which package directory it must be copied into, e.g. `// dir: cbcmac`) with one test that FAILS with the change applied and PASSES on the unmodified tree. It may be an in-package or external test. It must not depend on the network.
  - meta{"{k}"}.json : {{"property":"{pid}","summary":"what was changed","needs":"what specific input/sequence/fault is needed for the violation to manifest","files":[...],"tests_run":"the exact commands you ran and their outcome with and without the patch"}}
Between changes, restore the tree with `git checkout -- . && git clean -fdq` so that each patch is independent and relative to the clean tree. Verify yourself, for each change: (a) clean tree + demo test passes, (b) patched tree + demo test fails, (c) patched tree passes the existing tests of affected packages (without your demo file present). When done leave the worktree clean (git checkout -- . ; remove demo files) and reply with a short summary of each change (file, what, how it manifests).""")
