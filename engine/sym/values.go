// Package sym: a symbolic executor for go/ssa whose scalar values are smt terms.
package sym

import (
	"fmt"
	"go/types"

	"gosym/smt"

	"golang.org/x/tools/go/ssa"
)

// Value is one of: *smt.Term (int/bool), Pointer, Slice, Iface, *Closure, Str, Tuple, Agg, *MapV.
type Value interface{}

type Object struct {
	ID    int
	Cells []Value
	Name  string
	Base  bool // allocated during package init (snapshotted)
	dirty bool
	snap  []Value
	Const bool // never written after init (tables)
}

type Pointer struct {
	Obj    *Object // nil = nil pointer
	Off    int
	Sym    *smt.Term // optional symbolic element index
	Stride int
	Count  int
	Fn     *Closure // pointer-to-function not used; kept nil
}

type Slice struct {
	Obj    *Object // nil = nil slice
	Off    int     // cell offset of element 0
	Len    int
	Cap    int
	Stride int // cells per element
}

type Iface struct {
	T types.Type // nil = nil interface
	V Value
}

type Closure struct {
	Fn   *ssa.Function
	Bind []Value
	// builtin / intrinsic wrappers are never stored
}

type Str struct {
	S   string
	Sym []*smt.Term // non-nil when some byte is symbolic; len(Sym)==len(S)
}

type Tuple []Value

// Agg is a flattened struct/array value (same layout as memory cells).
type Agg []Value

type MapV struct {
	Keys []Value
	Vals map[string]Value
	KeyS []string
}

type engineError struct{ msg string }

func (e engineError) Error() string { return e.msg }

func fail(format string, args ...interface{}) {
	panic(engineError{fmt.Sprintf(format, args...)})
}

// pathEnd terminates the current path silently (infeasible / assumption false).
type pathEnd struct{ why string }

// goPanic is a Go-level panic propagating through interpreted frames.
type goPanic struct {
	val  Value
	desc string
}

// ---------- type layout ----------

type layout struct {
	cells  int
	fields []int // struct field offsets
	elem   int   // array elem cells
}

func (in *Interp) layoutOf(t types.Type) *layout {
	if l, ok := in.layouts[t]; ok {
		return l
	}
	l := &layout{}
	switch u := t.Underlying().(type) {
	case *types.Struct:
		off := 0
		for i := 0; i < u.NumFields(); i++ {
			l.fields = append(l.fields, off)
			off += in.layoutOf(u.Field(i).Type()).cells
		}
		l.cells = off
	case *types.Array:
		l.elem = in.layoutOf(u.Elem()).cells
		l.cells = l.elem * int(u.Len())
	case *types.Tuple:
		fail("layout of tuple")
	default:
		l.cells = 1
	}
	in.layouts[t] = l
	return l
}

func isAgg(t types.Type) bool {
	switch t.Underlying().(type) {
	case *types.Struct, *types.Array:
		return true
	}
	return false
}

func intWidth(b *types.Basic) (w int, signed bool, ok bool) {
	switch b.Kind() {
	case types.Int8:
		return 8, true, true
	case types.Int16:
		return 16, true, true
	case types.Int32, types.UntypedRune:
		return 32, true, true
	case types.Int64, types.Int, types.UntypedInt:
		return 64, true, true
	case types.Uint8:
		return 8, false, true
	case types.Uint16:
		return 16, false, true
	case types.Uint32:
		return 32, false, true
	case types.Uint64, types.Uint, types.Uintptr:
		return 64, false, true
	}
	return 0, false, false
}

// zeroCells appends the zero value of t (flattened) to dst.
func (in *Interp) zeroCells(dst []Value, t types.Type) []Value {
	switch u := t.Underlying().(type) {
	case *types.Struct:
		for i := 0; i < u.NumFields(); i++ {
			dst = in.zeroCells(dst, u.Field(i).Type())
		}
		return dst
	case *types.Array:
		n := int(u.Len())
		if n == 0 {
			return dst
		}
		start := len(dst)
		dst = in.zeroCells(dst, u.Elem())
		per := len(dst) - start
		for i := 1; i < n; i++ {
			dst = append(dst, dst[start:start+per]...)
		}
		return dst
	}
	return append(dst, in.zeroScalar(t))
}

func (in *Interp) zeroScalar(t types.Type) Value {
	switch u := t.Underlying().(type) {
	case *types.Basic:
		if w, _, ok := intWidth(u); ok {
			return in.C.Const(w, 0)
		}
		switch u.Kind() {
		case types.Bool, types.UntypedBool:
			return in.C.False
		case types.String, types.UntypedString:
			return Str{}
		case types.UnsafePointer:
			return Pointer{}
		case types.Float32, types.Float64, types.UntypedFloat:
			return floatVal(0)
		case types.UntypedNil:
			return Pointer{}
		}
		fail("zero of basic %v", u)
	case *types.Pointer:
		return Pointer{}
	case *types.Slice:
		return Slice{}
	case *types.Interface:
		return Iface{}
	case *types.Signature:
		return (*Closure)(nil)
	case *types.Map:
		return (*MapV)(nil)
	case *types.Chan:
		return Pointer{}
	case *types.TypeParam:
		fail("zero of type param %v", t)
	}
	fail("zero of %v", t)
	return nil
}

type floatVal float64

// zeroValue returns the zero value of t as a register value.
func (in *Interp) zeroValue(t types.Type) Value {
	if isAgg(t) {
		return Agg(in.zeroCells(nil, t))
	}
	if tt, ok := t.(*types.Tuple); ok {
		tup := make(Tuple, tt.Len())
		for i := range tup {
			tup[i] = in.zeroValue(tt.At(i).Type())
		}
		return tup
	}
	return in.zeroScalar(t)
}

func (in *Interp) newObject(cells []Value, name string) *Object {
	in.nextObj++
	o := &Object{ID: in.nextObj, Cells: cells, Name: name}
	if in.inInit > 0 {
		o.Base = true
		in.baseObjs = append(in.baseObjs, o)
	}
	return o
}

func (in *Interp) allocType(t types.Type, name string) Pointer {
	cells := in.zeroCells(make([]Value, 0, in.layoutOf(t).cells), t)
	return Pointer{Obj: in.newObject(cells, name)}
}

// store writes a register value of type t at (obj, off).
func (in *Interp) storeAt(o *Object, off int, v Value, t types.Type) {
	if o.Base && !o.dirty && in.inInit == 0 {
		o.dirty = true
		o.snap = append([]Value(nil), o.Cells...)
		in.dirtyObjs = append(in.dirtyObjs, o)
	}
	if a, ok := v.(Agg); ok {
		if off+len(a) > len(o.Cells) {
			fail("store out of object %s", o.Name)
		}
		copy(o.Cells[off:], a)
		return
	}
	if off >= len(o.Cells) {
		fail("store out of object %s (off %d, size %d)", o.Name, off, len(o.Cells))
	}
	o.Cells[off] = v
}

func (in *Interp) loadAt(o *Object, off int, t types.Type) Value {
	if isAgg(t) {
		n := in.layoutOf(t).cells
		if off+n > len(o.Cells) {
			fail("load out of object %s", o.Name)
		}
		return Agg(append([]Value(nil), o.Cells[off:off+n]...))
	}
	if off >= len(o.Cells) {
		fail("load out of object %s (off %d size %d)", o.Name, off, len(o.Cells))
	}
	return o.Cells[off]
}

func (in *Interp) term(v Value) *smt.Term {
	t, ok := v.(*smt.Term)
	if !ok {
		fail("expected scalar term, got %T", v)
	}
	return t
}

// concrete int from a term (must be constant)
func (in *Interp) concInt(v Value, what string) int {
	t := in.term(v)
	if !t.IsConst() {
		return int(in.concretize(t, what).Int())
	}
	return int(t.Int())
}
