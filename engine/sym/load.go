package sym

import (
	"fmt"
	"go/token"
	"go/types"
	"os"
	"strings"
	"sync"

	"golang.org/x/tools/go/packages"
	"golang.org/x/tools/go/ssa"
	"golang.org/x/tools/go/ssa/ssautil"
)

// Program is a loaded, fully built SSA program (shared read-only between workers).
type Program struct {
	Prog      *ssa.Program
	Fset      *token.FileSet
	Pkgs      map[string]*ssa.Package // by import path
	Overrides map[string]string       // full function name -> model function name (same package)
	InitAllow func(path string) bool
	ZeroInit  map[string]bool // packages whose globals are left zero (init never run)
	mu        *sync.Mutex
	initStores map[*ssa.Package]map[*ssa.Global]bool
	errT      *types.Pointer
}

// Load builds SSA for the given package patterns under dir with build tags and an overlay.
func Load(dir string, tags string, overlay map[string][]byte, patterns ...string) (*Program, error) {
	fset := token.NewFileSet()
	env := append(os.Environ(), "GOFLAGS=-mod=mod", "GOPROXY=off", "GOSUMDB=off", "GOTOOLCHAIN=local", "CGO_ENABLED=0")
	cfg := &packages.Config{
		Mode:    packages.LoadAllSyntax,
		Dir:     dir,
		Fset:    fset,
		Env:     env,
		Overlay: overlay,
	}
	if tags != "" {
		cfg.BuildFlags = []string{"-tags=" + tags}
	}
	initial, err := packages.Load(cfg, patterns...)
	if err != nil {
		return nil, err
	}
	var errs []string
	packages.Visit(initial, nil, func(p *packages.Package) {
		for _, e := range p.Errors {
			errs = append(errs, e.Error())
		}
	})
	if len(errs) > 0 {
		if len(errs) > 10 {
			errs = errs[:10]
		}
		return nil, fmt.Errorf("package load errors:\n%s", strings.Join(errs, "\n"))
	}
	prog, _ := ssautil.AllPackages(initial, ssa.InstantiateGenerics)
	prog.Build()
	p := &Program{Prog: prog, Fset: fset, Pkgs: map[string]*ssa.Package{}, Overrides: map[string]string{},
		initStores: map[*ssa.Package]map[*ssa.Global]bool{}, ZeroInit: map[string]bool{}, mu: &sync.Mutex{}}
	for _, sp := range prog.AllPackages() {
		p.Pkgs[sp.Pkg.Path()] = sp
	}
	p.InitAllow = func(path string) bool {
		return strings.HasPrefix(path, "github.com/emmansun/gmsm") || stdInitOK[path]
	}
	for _, z := range []string{"golang.org/x/sys/cpu", "internal/cpu", "github.com/emmansun/gmsm/internal/deps/cpu"} {
		p.ZeroInit[z] = true
	}
	return p, nil
}

// standard-library packages whose init may be executed on demand
var stdInitOK = map[string]bool{
	"errors": true, "io": true, "crypto/cipher": true, "crypto/subtle": true, "math/bits": true,
	"strconv": true, "unicode/utf8": true, "bytes": true, "encoding/binary": true, "hash": true,
	"crypto": true, "crypto/sha256": true, "crypto/des": true, "crypto/aes": true, "crypto/hmac": true,
	"golang.org/x/crypto/cryptobyte": true, "golang.org/x/crypto/cryptobyte/asn1": true,
	"encoding/asn1": true, "math/big": true, "crypto/internal/bigmod": true, "io/fs": true, "time": true,
	"crypto/rand": false,
}

func (p *Program) initAllowed(pkg *ssa.Package) bool {
	return p.InitAllow(pkg.Pkg.Path())
}

// needsInit reports whether global g is written (or has its address taken) by its package's init code.
func (p *Program) needsInit(g *ssa.Global) bool {
	pkg := g.Pkg
	if p.ZeroInit[pkg.Pkg.Path()] {
		return false
	}
	p.mu.Lock()
	defer p.mu.Unlock()
	m, ok := p.initStores[pkg]
	if !ok {
		m = map[*ssa.Global]bool{}
		var fns []*ssa.Function
		for name, mem := range pkg.Members {
			if f, ok := mem.(*ssa.Function); ok && (name == "init" || strings.HasPrefix(name, "init#")) {
				fns = append(fns, f)
			}
		}
		seen := map[*ssa.Function]bool{}
		for len(fns) > 0 {
			f := fns[len(fns)-1]
			fns = fns[:len(fns)-1]
			if seen[f] {
				continue
			}
			seen[f] = true
			for _, af := range f.AnonFuncs {
				fns = append(fns, af)
			}
			for _, b := range f.Blocks {
				for _, ins := range b.Instrs {
					for _, op := range ins.Operands(nil) {
						if gg, ok := (*op).(*ssa.Global); ok && gg.Pkg == pkg {
							m[gg] = true
						}
					}
					// functions of the same package called from init may also store globals: be conservative
					if call, ok := ins.(ssa.CallInstruction); ok {
						if callee := call.Common().StaticCallee(); callee != nil && callee.Pkg == pkg && !seen[callee] {
							fns = append(fns, callee)
						}
					}
				}
			}
		}
		p.initStores[pkg] = m
	}
	return m[g]
}

func (p *Program) lookupFunc(pkg *ssa.Package, name string) *ssa.Function {
	if pkg == nil {
		return nil
	}
	return pkg.Func(name)
}

func (p *Program) errorStringPtr() *types.Pointer {
	p.mu.Lock()
	defer p.mu.Unlock()
	if p.errT != nil {
		return p.errT
	}
	ep := p.Pkgs["errors"]
	if ep == nil {
		fail("package errors not loaded")
	}
	obj := ep.Pkg.Scope().Lookup("errorString")
	p.errT = types.NewPointer(obj.Type())
	return p.errT
}
