package sym

import (
	"fmt"
	"os"
	"go/types"
	"strings"

	"gosym/smt"

	"golang.org/x/tools/go/ssa"
)

type handler func(in *Interp, fn *ssa.Function, args []Value) Value

var intrinsics map[string]handler
var externals map[string]handler

func init() {
	intrinsics = map[string]handler{
		"verifU8":     func(in *Interp, fn *ssa.Function, a []Value) Value { return in.newVar(in.concStr(a[0]), 8) },
		"verifU16":    func(in *Interp, fn *ssa.Function, a []Value) Value { return in.newVar(in.concStr(a[0]), 16) },
		"verifU32":    func(in *Interp, fn *ssa.Function, a []Value) Value { return in.newVar(in.concStr(a[0]), 32) },
		"verifU64":    func(in *Interp, fn *ssa.Function, a []Value) Value { return in.newVar(in.concStr(a[0]), 64) },
		"verifBool":   func(in *Interp, fn *ssa.Function, a []Value) Value { return in.newVar(in.concStr(a[0]), 0) },
		"verifInt":    iInt,
		"verifParam":  iParam,
		"verifBytes":  iBytes,
		"verifBytesCap": iBytesCap,
		"verifAssume": func(in *Interp, fn *ssa.Function, a []Value) Value { in.assume(in.boolTerm(a[0])); return nil },
		"verifAssert": func(in *Interp, fn *ssa.Function, a []Value) Value {
			in.assert(in.boolTerm(a[0]), in.concStr(a[1]))
			return nil
		},
		"verifAll": func(in *Interp, fn *ssa.Function, a []Value) Value {
			s := a[0].(Slice)
			ts := make([]*smt.Term, s.Len)
			for i := range ts {
				ts[i] = in.boolTerm(s.Obj.Cells[s.Off+i])
			}
			return in.C.And(ts...)
		},
		"verifAny": func(in *Interp, fn *ssa.Function, a []Value) Value {
			s := a[0].(Slice)
			ts := make([]*smt.Term, s.Len)
			for i := range ts {
				ts[i] = in.boolTerm(s.Obj.Cells[s.Off+i])
			}
			return in.C.Or(ts...)
		},
		"verifImplies": func(in *Interp, fn *ssa.Function, a []Value) Value {
			return in.C.Implies(in.boolTerm(a[0]), in.boolTerm(a[1]))
		},
		"verifNot": func(in *Interp, fn *ssa.Function, a []Value) Value { return in.C.Not(in.boolTerm(a[0])) },
		"verifEqBytes": func(in *Interp, fn *ssa.Function, a []Value) Value {
			x, y := in.sliceBytes(a[0]), in.sliceBytes(a[1])
			if len(x) != len(y) {
				return in.C.False
			}
			conj := make([]*smt.Term, len(x))
			for i := range x {
				conj[i] = in.C.Eq(x[i], y[i])
			}
			return in.C.And(conj...)
		},
		"verifIteU8": func(in *Interp, fn *ssa.Function, a []Value) Value {
			return in.C.Ite(in.boolTerm(a[0]), in.term(a[1]), in.term(a[2]))
		},
		"verifIteInt": func(in *Interp, fn *ssa.Function, a []Value) Value {
			return in.C.Ite(in.boolTerm(a[0]), in.term(a[1]), in.term(a[2]))
		},
		"verifIteU64": func(in *Interp, fn *ssa.Function, a []Value) Value {
			return in.C.Ite(in.boolTerm(a[0]), in.term(a[1]), in.term(a[2]))
		},
		"verifIteU32": func(in *Interp, fn *ssa.Function, a []Value) Value {
			return in.C.Ite(in.boolTerm(a[0]), in.term(a[1]), in.term(a[2]))
		},
		"verifReach": func(in *Interp, fn *ssa.Function, a []Value) Value {
			tag := in.concStr(a[0])
			if in.X.SoftBranch && !in.X.Reached[tag] && in.X.pos >= len(in.X.prefix) {
				// paths may have been kept on undecided feasibility: a witness counts only if the solver
				// shows this very path feasible
				if in.X.pathFeasible() != smt.Sat {
					return nil
				}
			}
			in.X.Reached[tag] = true
			return nil
		},
		"verifUF":       iUF,
		"verifPerm":     iPerm,
		"verifPanics":   iPanics,
		"verifSameSlice": func(in *Interp, fn *ssa.Function, a []Value) Value {
			x, y := a[0].(Slice), a[1].(Slice)
			return in.C.Bool(x.Obj == y.Obj && x.Off == y.Off)
		},
		"verifIsConcrete": func(in *Interp, fn *ssa.Function, a []Value) Value {
			return in.C.Bool(in.term(a[0]).IsConst())
		},
		"verifConcretize": func(in *Interp, fn *ssa.Function, a []Value) Value {
			return in.concretize(in.term(a[0]), "verifConcretize")
		},
		"verifSameBytes": func(in *Interp, fn *ssa.Function, a []Value) Value {
			x, y := in.sliceBytes(a[0]), in.sliceBytes(a[1])
			if len(x) != len(y) {
				return in.C.False
			}
			for i := range x {
				if x[i] != y[i] {
					return in.C.False
				}
			}
			return in.C.True
		},
		"verifDumpErr": func(in *Interp, fn *ssa.Function, a []Value) Value {
			if os.Getenv("VERIF_DUMP") != "" {
				fmt.Fprintf(os.Stderr, "DUMP %s: %s\n", in.concStr(a[0]), in.describe(a[1]))
			}
			return nil
		},
		"verifAssertEqSweep": func(in *Interp, fn *ssa.Function, a []Value) Value {
			x, y := in.sliceBytes(a[0]), in.sliceBytes(a[1])
			msg := in.concStr(a[2])
			if len(x) != len(y) {
				in.assert(in.C.False, msg)
				return nil
			}
			if in.X.pos < len(in.X.prefix) {
				return nil // replaying a prefix: decided on an earlier path
			}
			roots := append(append([]*smt.Term(nil), x...), y...)
			out := in.sweep(roots)
			conj := make([]*smt.Term, len(x))
			for i := range x {
				conj[i] = in.C.Eq(out[i], out[len(x)+i])
			}
			in.assert(in.C.And(conj...), msg)
			return nil
		},
		// wide (big-endian, same length) two's complement arithmetic as ONE bit-vector operation
		"verifWideAdd": func(in *Interp, fn *ssa.Function, a []Value) Value {
			x, y := in.sliceBytes(a[0]), in.sliceBytes(a[1])
			if len(x) != len(y) || len(x) == 0 {
				fail("verifWideAdd: length mismatch")
			}
			return in.wideResult(in.C.Add(in.C.Concat(x...), in.C.Concat(y...)), len(x))
		},
		"verifWideSub": func(in *Interp, fn *ssa.Function, a []Value) Value {
			x, y := in.sliceBytes(a[0]), in.sliceBytes(a[1])
			if len(x) != len(y) || len(x) == 0 {
				fail("verifWideSub: length mismatch")
			}
			return in.wideResult(in.C.Sub(in.C.Concat(x...), in.C.Concat(y...)), len(x))
		},
		"verifWideEq": func(in *Interp, fn *ssa.Function, a []Value) Value {
			x, y := in.sliceBytes(a[0]), in.sliceBytes(a[1])
			if len(x) != len(y) || len(x) == 0 {
				fail("verifWideEq: length mismatch")
			}
			return in.C.Eq(in.C.Concat(x...), in.C.Concat(y...))
		},
		"verifIteBytes": func(in *Interp, fn *ssa.Function, a []Value) Value {
			x, y := in.sliceBytes(a[1]), in.sliceBytes(a[2])
			if len(x) != len(y) || len(x) == 0 {
				fail("verifIteBytes: length mismatch")
			}
			return in.wideResult(in.C.Ite(in.boolTerm(a[0]), in.C.Concat(x...), in.C.Concat(y...)), len(x))
		},
		// extra roots for the next verifAssertEqSweep: intermediate specification values the sweep may
		// relate code nodes to (every relation is still proved by the solver before it is used)
		"verifSweepHintBool": func(in *Interp, fn *ssa.Function, a []Value) Value {
			in.sweepHints = append(in.sweepHints, in.boolTerm(a[0]))
			return nil
		},
		"verifSweepHint64": func(in *Interp, fn *ssa.Function, a []Value) Value {
			in.sweepHints = append(in.sweepHints, in.term(a[0]))
			return nil
		},
		// verifAssertSweep: assertion decided after relating the condition's DAG to the hints and to
		// itself by chained, solver-proved lemmas
		"verifAssertSweep": func(in *Interp, fn *ssa.Function, a []Value) Value {
			cond := in.boolTerm(a[0])
			msg := in.concStr(a[1])
			if in.X.pos < len(in.X.prefix) {
				return nil
			}
			out := in.sweep([]*smt.Term{cond})
			in.assert(out[0], msg)
			return nil
		},
		"verifSweepHint": func(in *Interp, fn *ssa.Function, a []Value) Value {
			in.sweepHints = append(in.sweepHints, in.sliceBytes(a[0])...)
			return nil
		},
		"verifWordLevel": func(in *Interp, fn *ssa.Function, a []Value) Value {
			in.C.NoSplit = in.boolTerm(a[0]).IsTrue()
			return nil
		},
		"verifSymbolic": func(in *Interp, fn *ssa.Function, a []Value) Value { return in.C.True },
		"verifNote":     func(in *Interp, fn *ssa.Function, a []Value) Value { return nil },
		"verifTimeAgo": func(in *Interp, fn *ssa.Function, a []Value) Value {
			d := in.term(a[0])
			return Agg{in.C.Const(64, 0), in.C.Sub(in.clock(), d), Pointer{}}
		},
		// outcome of the last crypto/rand.Read (scripted source: both outcomes are explored)
		"verifRandFailed": func(in *Interp, fn *ssa.Function, a []Value) Value { return in.C.Bool(in.randFailed) },
		"verifErrIsNil": func(in *Interp, fn *ssa.Function, a []Value) Value {
			return in.C.Bool(a[0].(Iface).T == nil)
		},
	}
	externals = map[string]handler{
		"crypto/subtle.XORBytes":                               xXORBytes,
		"github.com/emmansun/gmsm/internal/alias.AnyOverlap":     xAnyOverlap,
		"github.com/emmansun/gmsm/internal/alias.InexactOverlap": xInexactOverlap,
		"crypto/internal/alias.AnyOverlap":                     xAnyOverlap,
		"crypto/internal/alias.InexactOverlap":                 xInexactOverlap,
		"fmt.Errorf":            func(in *Interp, fn *ssa.Function, a []Value) Value { return in.errorValue("fmt.Errorf:" + in.describeFmt(a[0])) },
		"fmt.Sprintf":           func(in *Interp, fn *ssa.Function, a []Value) Value { return Str{S: "fmt.Sprintf:" + in.describeFmt(a[0])} },
		"fmt.Sprint":            func(in *Interp, fn *ssa.Function, a []Value) Value { return Str{S: "fmt.Sprint"} },
		"fmt.Sprintln":          func(in *Interp, fn *ssa.Function, a []Value) Value { return Str{S: "fmt.Sprintln"} },
		"fmt.Println":           func(in *Interp, fn *ssa.Function, a []Value) Value { return Tuple{in.C.Const(64, 0), Iface{}} },
		"fmt.Printf":            func(in *Interp, fn *ssa.Function, a []Value) Value { return Tuple{in.C.Const(64, 0), Iface{}} },
		"runtime.KeepAlive":     func(in *Interp, fn *ssa.Function, a []Value) Value { return nil },
		"runtime.SetFinalizer":  func(in *Interp, fn *ssa.Function, a []Value) Value { return nil },
		"(*sync.Mutex).Lock":    func(in *Interp, fn *ssa.Function, a []Value) Value { return nil },
		"(*sync.Mutex).Unlock":  func(in *Interp, fn *ssa.Function, a []Value) Value { return nil },
		"(*sync.RWMutex).Lock":  func(in *Interp, fn *ssa.Function, a []Value) Value { return nil },
		"(*sync.RWMutex).Unlock": func(in *Interp, fn *ssa.Function, a []Value) Value { return nil },
		"(*sync.RWMutex).RLock": func(in *Interp, fn *ssa.Function, a []Value) Value { return nil },
		"(*sync.RWMutex).RUnlock": func(in *Interp, fn *ssa.Function, a []Value) Value { return nil },
		"(*sync.Once).Do":       xOnceDo,
		"(*sync.Pool).Get":      xPoolGet,
		"(*sync.Pool).Put":      xPoolPut,
		"time.Now": func(in *Interp, fn *ssa.Function, a []Value) Value {
			return Agg{in.C.Const(64, 0), in.clock(), Pointer{}}
		},
		"time.Since": func(in *Interp, fn *ssa.Function, a []Value) Value {
			t := a[0].(Agg)
			return in.C.Sub(in.clock(), in.term(t[1]))
		},
		"crypto/rand.Read":    xRandRead,
		"(*math/big.Int).Mod": xBigMod,
		"(*math/big.Int).Mul": xBigMul,
		"bytes.Index":      xBytesIndex,
		"bytes.IndexByte":  xBytesIndexByte,
		"internal/bytealg.IndexByte": xBytesIndexByte,
		"internal/bytealg.IndexByteString": xBytesIndexByte,
		"bytes.Equal": func(in *Interp, fn *ssa.Function, a []Value) Value {
			x, y := in.sliceBytes(a[0]), in.sliceBytes(a[1])
			if len(x) != len(y) {
				return in.C.False
			}
			conj := make([]*smt.Term, len(x))
			for i := range x {
				conj[i] = in.C.Eq(x[i], y[i])
			}
			return in.C.And(conj...)
		},
		"github.com/emmansun/gmsm/internal/randutil.MaybeReadByte": func(in *Interp, fn *ssa.Function, a []Value) Value {
			// reads one byte from the source or none, chosen nondeterministically (both are explored)
			if in.branch(in.newVar("maybereadbyte", 0), "MaybeReadByte") {
				r := a[0].(Iface)
				if r.T == nil {
					in.goPanicf("nil io.Reader")
				}
				buf := in.newByteSlice([]*smt.Term{in.C.Const(8, 0)}, 1, "maybereadbyte")
				m := in.P.Prog.LookupMethod(r.T, nil, "Read")
				if m == nil {
					fail("Read method not found on %v", r.T)
				}
				in.callFn(m, []Value{r.V, buf}, nil)
			}
			return nil
		},
		"os.Getenv":             func(in *Interp, fn *ssa.Function, a []Value) Value { return Str{} },
		"math/bits.Len64":       func(in *Interp, fn *ssa.Function, a []Value) Value { return in.bitsLen(in.term(a[0])) },
		"math/bits.Len32":       func(in *Interp, fn *ssa.Function, a []Value) Value { return in.bitsLen(in.term(a[0])) },
		"math/bits.Len16":       func(in *Interp, fn *ssa.Function, a []Value) Value { return in.bitsLen(in.term(a[0])) },
		"math/bits.Len8":        func(in *Interp, fn *ssa.Function, a []Value) Value { return in.bitsLen(in.term(a[0])) },
		"math/bits.Len":         func(in *Interp, fn *ssa.Function, a []Value) Value { return in.bitsLen(in.term(a[0])) },
		"math/bits.LeadingZeros64": func(in *Interp, fn *ssa.Function, a []Value) Value {
			return in.C.Sub(in.C.Const(64, 64), in.bitsLen(in.term(a[0])).(*smt.Term))
		},
		"math/bits.LeadingZeros32": func(in *Interp, fn *ssa.Function, a []Value) Value {
			return in.C.Sub(in.C.Const(64, 32), in.bitsLen(in.term(a[0])).(*smt.Term))
		},
		"math/bits.LeadingZeros8": func(in *Interp, fn *ssa.Function, a []Value) Value {
			return in.C.Sub(in.C.Const(64, 8), in.bitsLen(in.term(a[0])).(*smt.Term))
		},
		"math/bits.TrailingZeros64": xTrailingZeros,
		"math/bits.TrailingZeros32": xTrailingZeros,
		"math/bits.TrailingZeros8":  xTrailingZeros,
		"math/bits.TrailingZeros":   xTrailingZeros,
		"math/bits.OnesCount8":      xOnesCount,
		"math/bits.OnesCount32":     xOnesCount,
		"math/bits.OnesCount64":     xOnesCount,
		"math/bits.Mul64":           xMul64,
		"math/bits.Add64":           xAdd64,
		"math/bits.Sub64":           xSub64,
		"math/bits.ReverseBytes64":  xReverseBytes,
		"math/bits.ReverseBytes32":  xReverseBytes,
		"math/bits.ReverseBytes16":  xReverseBytes,
		"math/bits.Reverse8":        xReverseBits,
		"math/bits.Reverse32":       xReverseBits,
		"math/bits.Reverse64":       xReverseBits,
	}
}

func (in *Interp) describeFmt(v Value) string {
	if s, ok := v.(Str); ok {
		return s.S
	}
	return "?"
}

func iInt(in *Interp, fn *ssa.Function, a []Value) Value {
	tag := in.concStr(a[0])
	lo, hi := in.term(a[1]), in.term(a[2])
	v := in.newVar(tag, 64)
	in.assume(in.C.And(in.C.Sle(lo, v), in.C.Sle(v, hi)))
	return v
}

func iParam(in *Interp, fn *ssa.Function, a []Value) Value {
	tag := in.concStr(a[0])
	v, ok := in.X.Params[tag]
	if !ok {
		fail("case parameter %q not bound", tag)
	}
	return in.C.Const(64, uint64(int64(v)))
}

func iBytes(in *Interp, fn *ssa.Function, a []Value) Value {
	tag := in.concStr(a[0])
	n := in.concInt(a[1], "verifBytes length")
	bs := make([]*smt.Term, n)
	for i := range bs {
		bs[i] = in.newVar(tag, 8)
	}
	return in.newByteSlice(bs, n, tag)
}

func iBytesCap(in *Interp, fn *ssa.Function, a []Value) Value {
	tag := in.concStr(a[0])
	n := in.concInt(a[1], "verifBytesCap length")
	cp := in.concInt(a[2], "verifBytesCap cap")
	if cp < n {
		cp = n
	}
	bs := make([]*smt.Term, cp)
	for i := range bs {
		bs[i] = in.newVar(tag, 8)
	}
	s := in.newByteSlice(bs, cp, tag)
	s.Len = n
	return s
}

// verifUF(name string, outLen int, args ...[]byte) []byte
func (in *Interp) sweep(roots []*smt.Term) []*smt.Term {
	if in.X.Sweeper == nil {
		in.X.Sweeper = smt.NewSweeper(in.C, in.X.S, 8)
	}
	sw := in.X.Sweeper
	p0, c0 := sw.Stats.Proved, sw.Stats.Candidates
	if len(in.sweepHints) > 0 {
		sw.AddHints(in.sweepHints)
	}
	out := sw.Run(roots)
	in.X.SweepProved += sw.Stats.Proved - p0
	in.X.SweepCandidates += sw.Stats.Candidates - c0
	return out
}

func (in *Interp) wideResult(t *smt.Term, n int) Slice {
	bs := make([]*smt.Term, n)
	for i := 0; i < n; i++ {
		hi := 8*(n-i) - 1
		bs[i] = in.C.Extract(t, hi, hi-7)
	}
	return in.newByteSlice(bs, n, "wide")
}

func iUF(in *Interp, fn *ssa.Function, a []Value) Value {
	name := in.concStr(a[0])
	outLen := in.concInt(a[1], "verifUF outLen")
	vs := a[2].(Slice)
	var targs []*smt.Term
	sig := ""
	for i := 0; i < vs.Len; i++ {
		bs := in.sliceBytes(vs.Obj.Cells[vs.Off+i])
		sig += fmt.Sprintf("_%d", len(bs))
		if len(bs) == 0 {
			continue
		}
		targs = append(targs, in.C.Concat(bs...))
	}
	uname := fmt.Sprintf("%s%s_o%d", name, sig, outLen)
	// a name ending in ".comm" declares a commutative binary function: the operands are put in a
	// canonical order, so f(a,b) and f(b,a) are the same term
	if strings.HasSuffix(name, ".comm") && len(targs) == 2 && targs[0].W == targs[1].W {
		if targs[0].ID > targs[1].ID {
			targs[0], targs[1] = targs[1], targs[0]
		}
		// f(a,b) := h(min(a,b), max(a,b)): commutative for the solver as well, not only syntactically
		if targs[0] != targs[1] {
			le := in.C.Ule(targs[0], targs[1])
			targs[0], targs[1] = in.C.Ite(le, targs[0], targs[1]), in.C.Ite(le, targs[1], targs[0])
		}
	}
	if outLen == 0 {
		return in.newByteSlice(nil, 0, uname)
	}
	r := in.C.UF(uname, 8*outLen, targs...)
	out := make([]*smt.Term, outLen)
	for i := range out {
		out[i] = in.C.Extract(r, 8*(outLen-i)-1, 8*(outLen-i-1))
	}
	return in.newByteSlice(out, outLen, uname)
}

// verifPerm(name string, inverse bool, key []byte, x []byte) []byte : keyed permutation pair E/D
func iPerm(in *Interp, fn *ssa.Function, a []Value) Value {
	name := in.concStr(a[0])
	invT := in.boolTerm(a[1])
	if !invT.IsConst() {
		fail("verifPerm: symbolic direction")
	}
	key := in.sliceBytes(a[2])
	x := in.sliceBytes(a[3])
	n := len(x)
	e := fmt.Sprintf("%s_E_k%d_b%d", name, len(key), n)
	d := fmt.Sprintf("%s_D_k%d_b%d", name, len(key), n)
	in.C.Inverse[e] = d
	in.C.Inverse[d] = e
	un := e
	if invT.IsTrue() {
		un = d
	}
	var targs []*smt.Term
	if len(key) > 0 {
		targs = append(targs, in.C.Concat(key...))
	}
	targs = append(targs, in.C.Concat(x...))
	r := in.C.UF(un, 8*n, targs...)
	out := make([]*smt.Term, n)
	for i := range out {
		out[i] = in.C.Extract(r, 8*(n-i)-1, 8*(n-i-1))
	}
	return in.newByteSlice(out, n, un)
}

// verifPanics(f func()) bool : runs f, reports whether it panicked (Go panic), swallowing it.
func iPanics(in *Interp, fn *ssa.Function, a []Value) (res Value) {
	saved := in.curFrame
	depth := in.depth
	defer func() {
		if r := recover(); r != nil {
			if _, ok := r.(*goPanic); ok {
				in.curFrame = saved
				in.depth = depth
				res = in.C.True
				return
			}
			panic(r)
		}
	}()
	in.callValue(a[0], nil)
	return in.C.False
}

// ---------- externals ----------

func xXORBytes(in *Interp, fn *ssa.Function, a []Value) Value {
	dst, x, y := a[0].(Slice), a[1].(Slice), a[2].(Slice)
	n := min(x.Len, y.Len)
	if n == 0 {
		return in.C.Const(64, 0)
	}
	if n > dst.Len {
		panic(&goPanic{val: Iface{T: types.Typ[types.String], V: Str{S: "subtle.XORBytes: dst too short"}}, desc: "panic: subtle.XORBytes: dst too short"})
	}
	xs, ys := in.sliceBytes(Slice{Obj: x.Obj, Off: x.Off, Len: n, Stride: 1}), in.sliceBytes(Slice{Obj: y.Obj, Off: y.Off, Len: n, Stride: 1})
	in.touch(dst.Obj)
	for i := 0; i < n; i++ {
		dst.Obj.Cells[dst.Off+i] = in.C.BvXor(xs[i], ys[i])
	}
	return in.C.Const(64, uint64(n))
}

func overlap(x, y Slice) bool {
	return x.Len > 0 && y.Len > 0 && x.Obj == y.Obj && x.Off <= y.Off+y.Len-1 && y.Off <= x.Off+x.Len-1
}

func xAnyOverlap(in *Interp, fn *ssa.Function, a []Value) Value {
	return in.C.Bool(overlap(a[0].(Slice), a[1].(Slice)))
}

func xInexactOverlap(in *Interp, fn *ssa.Function, a []Value) Value {
	x, y := a[0].(Slice), a[1].(Slice)
	if x.Len == 0 || y.Len == 0 || (x.Obj == y.Obj && x.Off == y.Off) {
		return in.C.False
	}
	return in.C.Bool(overlap(x, y))
}

func xOnceDo(in *Interp, fn *ssa.Function, a []Value) Value {
	p := a[0].(Pointer)
	if p.Obj == nil {
		in.goPanicf("nil pointer dereference (sync.Once)")
	}
	// first scalar cell of sync.Once is done.v (uint32)
	done := in.term(p.Obj.Cells[p.Off])
	if done.IsConst() && done.Uint() != 0 {
		return nil
	}
	// Go sets done after f returns (also when f panics, via defer)
	defer func() {
		in.touch(p.Obj)
		p.Obj.Cells[p.Off] = in.C.Const(done.W, 1)
	}()
	in.callValue(a[1], nil)
	return nil
}

func (in *Interp) bitsLen(x *smt.Term) Value {
	c := in.C
	if x.IsConst() {
		n := 0
		for v := x.Uint(); v != 0; v >>= 1 {
			n++
		}
		return c.Const(64, uint64(n))
	}
	r := c.Const(64, 0)
	for i := 0; i < x.W; i++ {
		bit := c.Eq(c.Extract(x, i, i), c.Const(1, 1))
		r = c.Ite(bit, c.Const(64, uint64(i+1)), r)
	}
	return r
}

func xTrailingZeros(in *Interp, fn *ssa.Function, a []Value) Value {
	c := in.C
	x := in.term(a[0])
	r := c.Const(64, uint64(x.W))
	for i := x.W - 1; i >= 0; i-- {
		bit := c.Eq(c.Extract(x, i, i), c.Const(1, 1))
		r = c.Ite(bit, c.Const(64, uint64(i)), r)
	}
	return r
}

func xOnesCount(in *Interp, fn *ssa.Function, a []Value) Value {
	c := in.C
	x := in.term(a[0])
	r := c.Const(64, 0)
	for i := 0; i < x.W; i++ {
		r = c.Add(r, c.ZExt(c.Extract(x, i, i), 64))
	}
	return r
}

func xMul64(in *Interp, fn *ssa.Function, a []Value) Value {
	c := in.C
	x, y := in.term(a[0]), in.term(a[1])
	p := c.Mul(c.ZExt(x, 128), c.ZExt(y, 128))
	return Tuple{c.Extract(p, 127, 64), c.Extract(p, 63, 0)}
}

func xAdd64(in *Interp, fn *ssa.Function, a []Value) Value {
	c := in.C
	x, y, ci := in.term(a[0]), in.term(a[1]), in.term(a[2])
	sum := c.Add(c.Add(x, y), ci)
	// carryOut = ((x & y) | ((x | y) &^ sum)) >> 63   (math/bits)
	co := c.LShr(c.BvOr(c.BvAnd(x, y), c.BvAnd(c.BvOr(x, y), c.BvNot(sum))), c.Const(64, 63))
	return Tuple{sum, co}
}

func xSub64(in *Interp, fn *ssa.Function, a []Value) Value {
	c := in.C
	x, y, bi := in.term(a[0]), in.term(a[1]), in.term(a[2])
	diff := c.Sub(c.Sub(x, y), bi)
	// borrowOut = ((^x & y) | (^(x ^ y) & diff)) >> 63   (math/bits)
	bo := c.LShr(c.BvOr(c.BvAnd(c.BvNot(x), y), c.BvAnd(c.BvNot(c.BvXor(x, y)), diff)), c.Const(64, 63))
	return Tuple{diff, bo}
}

func xReverseBytes(in *Interp, fn *ssa.Function, a []Value) Value {
	x := in.term(a[0])
	var parts []*smt.Term
	for i := 0; i < x.W/8; i++ {
		parts = append(parts, in.C.Extract(x, 8*i+7, 8*i))
	}
	return in.C.Concat(parts...)
}

func xReverseBits(in *Interp, fn *ssa.Function, a []Value) Value {
	x := in.term(a[0])
	var parts []*smt.Term
	for i := 0; i < x.W; i++ {
		parts = append(parts, in.C.Extract(x, i, i))
	}
	return in.C.Concat(parts...)
}

var _ = strings.HasPrefix

// clock: the abstract wall clock. One symbolic instant per path: time does not advance while a single
// harness operation runs; elapsed times are set up by the harness with verifTimeAgo.
func (in *Interp) clock() *smt.Term {
	if t, ok := in.ghost["clock"]; ok {
		return t.(*smt.Term)
	}
	t := in.C.Const(64, 1<<50)
	in.ghost["clock"] = t
	return t
}

// sync.Pool model: a per-pool LIFO (an object put back is handed out again by the next Get — the
// behaviour that exposes stale-buffer bugs); New is called when the pool is empty.
func poolKey(p Pointer) string { return fmt.Sprintf("pool:%d:%d", p.Obj.ID, p.Off) }

func xPoolGet(in *Interp, fn *ssa.Function, a []Value) Value {
	p := a[0].(Pointer)
	if p.Obj == nil {
		in.goPanicf("nil pointer dereference (sync.Pool)")
	}
	k := poolKey(p)
	if l, ok := in.ghost[k].([]Value); ok && len(l) > 0 {
		v := l[len(l)-1]
		in.ghost[k] = l[:len(l)-1]
		return v
	}
	// New is the last field of sync.Pool
	pt := fn.Signature.Recv().Type().(*types.Pointer).Elem()
	lay := in.layoutOf(pt)
	newFn := p.Obj.Cells[p.Off+lay.fields[len(lay.fields)-1]]
	if cl, ok := newFn.(*Closure); ok && cl != nil {
		return in.callValue(cl, nil)
	}
	return Iface{}
}

func xPoolPut(in *Interp, fn *ssa.Function, a []Value) Value {
	p := a[0].(Pointer)
	if p.Obj == nil {
		in.goPanicf("nil pointer dereference (sync.Pool)")
	}
	if v, ok := a[1].(Iface); ok && v.T == nil {
		return nil
	}
	k := poolKey(p)
	l, _ := in.ghost[k].([]Value)
	in.ghost[k] = append(l, a[1])
	return nil
}

// bytes.Index(s, sep): first index of sep in s or -1 (symbolic result as an ite chain)
func xBytesIndex(in *Interp, fn *ssa.Function, a []Value) Value {
	s, sep := in.sliceBytes(a[0]), in.sliceBytes(a[1])
	c := in.C
	r := c.Const(64, ^uint64(0))
	if len(sep) == 0 {
		return c.Const(64, 0)
	}
	for i := len(s) - len(sep); i >= 0; i-- {
		conj := make([]*smt.Term, len(sep))
		for j := range sep {
			conj[j] = c.Eq(s[i+j], sep[j])
		}
		r = c.Ite(c.And(conj...), c.Const(64, uint64(i)), r)
	}
	return r
}

func xBytesIndexByte(in *Interp, fn *ssa.Function, a []Value) Value {
	c := in.C
	var s []*smt.Term
	switch v := a[0].(type) {
	case Slice:
		s = in.sliceBytes(v)
	case Str:
		for _, x := range in.strCells(v) {
			s = append(s, x.(*smt.Term))
		}
	}
	b := in.term(a[1])
	r := c.Const(64, ^uint64(0))
	for i := len(s) - 1; i >= 0; i-- {
		r = c.Ite(c.Eq(s[i], b), c.Const(64, uint64(i)), r)
	}
	return r
}

// (*math/big.Int).Mod with a symbolic operand: multi-word division is data-dependent code the executor
// cannot follow; the result is an UNINTERPRETED function of the operands -- an arbitrary value below the modulus with a non-zero top word
// (an over-approximation except for results shorter than the modulus, which are not explored).  With
// concrete operands the real code runs.
func xBigMod(in *Interp, fn *ssa.Function, a []Value) Value {
	z, x, m := a[0].(Pointer), a[1].(Pointer), a[2].(Pointer)
	if z.Obj == nil || x.Obj == nil || m.Obj == nil {
		return in.callFunction(fn, a, nil)
	}
	conc := func(p Pointer) bool {
		s, ok := p.Obj.Cells[p.Off+1].(Slice)
		if !ok {
			return true
		}
		for i := 0; i < s.Len; i++ {
			if t, ok := s.Obj.Cells[s.Off+i].(*smt.Term); ok && !t.IsConst() {
				return false
			}
		}
		return true
	}
	ms, ok := m.Obj.Cells[m.Off+1].(Slice)
	if (conc(x) && conc(m)) || !ok || ms.Len == 0 {
		return in.callFunction(fn, a, nil)
	}
	n := ms.Len
	cells := make([]Value, n)
	hi := make([]*smt.Term, n)
	mhi := make([]*smt.Term, n)
	// the result is an uninterpreted function of the operands (so that the same reduction of the same
	// value gives the same result), otherwise unconstrained
	xs, _ := x.Obj.Cells[x.Off+1].(Slice)
	var xhi []*smt.Term
	for i := xs.Len - 1; i >= 0; i-- {
		xhi = append(xhi, in.term(xs.Obj.Cells[xs.Off+i]))
	}
	for i := 0; i < n; i++ {
		mhi[n-1-i] = in.term(ms.Obj.Cells[ms.Off+i])
	}
	var r *smt.Term
	if len(xhi) == 0 {
		return in.callFunction(fn, a, nil)
	}
	r = in.C.UF(fmt.Sprintf("big.mod_%d_%d", xs.Len, n), 64*n, in.C.Concat(xhi...), in.C.Concat(mhi...))
	for i := 0; i < n; i++ {
		w := in.C.Extract(r, 64*i+63, 64*i)
		cells[i] = w
		hi[n-1-i] = w
	}
	in.assume(in.C.Ult(in.C.Concat(hi...), in.C.Concat(mhi...)))
	in.assume(in.C.Not(in.C.Eq(hi[0], in.C.Const(64, 0))))
	obj := in.newObject(cells, "bigmod")
	in.storeAt(z.Obj, z.Off, in.C.False, types.Typ[types.Bool])
	in.storeAt(z.Obj, z.Off+1, Slice{Obj: obj, Off: 0, Len: n, Cap: n, Stride: 1}, types.NewSlice(types.Typ[types.Uint]))
	return z
}

// (*math/big.Int).Mul with a symbolic operand: the magnitude is an uninterpreted function of the operands
// (len(x)+len(y) words; the top word may be zero, then the next one is assumed non-zero), the sign is exact.
// Keeps symbolic-by-symbolic multiplication out of the path condition; concrete operands run the real code.
func xBigMul(in *Interp, fn *ssa.Function, a []Value) Value {
	z, x, y := a[0].(Pointer), a[1].(Pointer), a[2].(Pointer)
	if z.Obj == nil || x.Obj == nil || y.Obj == nil {
		return in.callFunction(fn, a, nil)
	}
	words := func(p Pointer) ([]*smt.Term, bool) {
		s, ok := p.Obj.Cells[p.Off+1].(Slice)
		if !ok {
			return nil, true
		}
		conc := true
		var hi []*smt.Term
		for i := s.Len - 1; i >= 0; i-- {
			t := in.term(s.Obj.Cells[s.Off+i])
			if !t.IsConst() {
				conc = false
			}
			hi = append(hi, t)
		}
		return hi, conc
	}
	xh, xc := words(x)
	yh, yc := words(y)
	if (xc && yc) || len(xh) == 0 || len(yh) == 0 {
		return in.callFunction(fn, a, nil)
	}
	X, Y := in.C.Concat(xh...), in.C.Concat(yh...)
	lx, ly := len(xh), len(yh)
	if lx > ly || (lx == ly && X.ID > Y.ID) {
		X, Y, lx, ly = Y, X, ly, lx
	}
	n := lx + ly
	r := in.C.UF(fmt.Sprintf("big.mul_%d_%d", lx, ly), 64*n, X, Y)
	top := in.C.Extract(r, 64*n-1, 64*n-64)
	if in.branch(in.C.Eq(top, in.C.Const(64, 0)), "big.Int.Mul top word") {
		n--
		in.assume(in.C.Not(in.C.Eq(in.C.Extract(r, 64*n-1, 64*n-64), in.C.Const(64, 0))))
	}
	cells := make([]Value, n)
	for i := 0; i < n; i++ {
		cells[i] = in.C.Extract(r, 64*i+63, 64*i)
	}
	xn, yn := in.boolTerm(x.Obj.Cells[x.Off]), in.boolTerm(y.Obj.Cells[y.Off])
	neg := in.C.Not(in.C.Eq(xn, yn))
	obj := in.newObject(cells, "bigmul")
	in.storeAt(z.Obj, z.Off, neg, types.Typ[types.Bool])
	in.storeAt(z.Obj, z.Off+1, Slice{Obj: obj, Off: 0, Len: n, Cap: n, Stride: 1}, types.NewSlice(types.Typ[types.Uint]))
	return z
}


// crypto/rand.Read as a scripted source: either it fails (0 bytes, an error) or it fills the buffer with
// arbitrary bytes; both outcomes are explored.
func xRandRead(in *Interp, fn *ssa.Function, a []Value) Value {
	b := a[0].(Slice)
	if in.branch(in.newVar("randread.fails", 0), "crypto/rand.Read outcome") {
		in.randFailed = true
		return Tuple{in.C.Const(64, 0), in.errorValue("crypto/rand: scripted failure")}
	}
	in.randFailed = false
	for i := 0; i < b.Len; i++ {
		in.storeAt(b.Obj, b.Off+i*b.Stride, in.newVar("randread", 8), types.Typ[types.Uint8])
	}
	return Tuple{in.C.Const(64, uint64(b.Len)), Iface{}}
}
