package sym

import (
	"fmt"
	"go/types"
	"strings"

	"gosym/smt"

	"golang.org/x/tools/go/ssa"
)

func (in *Interp) prepareCall(fr *frame, cc *ssa.CallCommon) (Value, []Value) {
	args := make([]Value, 0, len(cc.Args)+1)
	var fnv Value
	if cc.IsInvoke() {
		recv := in.get(fr, cc.Value)
		fnv = recv // resolved at call time
	} else if _, ok := cc.Value.(*ssa.Builtin); ok {
		fnv = nil
	} else {
		fnv = in.get(fr, cc.Value)
	}
	for _, a := range cc.Args {
		args = append(args, in.get(fr, a))
	}
	return fnv, args
}

func (in *Interp) call(fr *frame, cc *ssa.CallCommon, ins ssa.Instruction) Value {
	fnv, args := in.prepareCall(fr, cc)
	return in.doCall(fr, cc, fnv, args, false)
}

func (in *Interp) doCall(fr *frame, cc *ssa.CallCommon, fnv Value, args []Value, deferred bool) Value {
	if b, ok := cc.Value.(*ssa.Builtin); ok {
		return in.builtin(fr, cc, b, args, deferred)
	}
	if cc.IsInvoke() {
		recv := fnv.(Iface)
		if recv.T == nil {
			in.goPanicf("nil interface method call %s", cc.Method.Name())
		}
		fn := in.P.Prog.LookupMethod(recv.T, cc.Method.Pkg(), cc.Method.Name())
		if fn == nil {
			fail("method %s not found on %v", cc.Method.Name(), recv.T)
		}
		return in.callFn(fn, append([]Value{recv.V}, args...), nil)
	}
	cl, ok := fnv.(*Closure)
	if !ok {
		fail("call of %T", fnv)
	}
	if cl == nil {
		in.goPanicf("call of nil function")
	}
	return in.callFn(cl.Fn, args, cl.Bind)
}

// callFn dispatches intrinsics, models, externals and real bodies.
func (in *Interp) callFn(fn *ssa.Function, args []Value, bind []Value) Value {
	name := fn.Name()
	if name == "init" && fn.Synthetic == "package initializer" && in.inInit > 0 && fn.Pkg != nil && !in.initing[fn.Pkg] {
		return nil // dependencies are initialised lazily, on first access to one of their globals
	}
	if strings.HasPrefix(name, "verif") && fn.Pkg != nil {
		if h, ok := intrinsics[name]; ok {
			return h(in, fn, args)
		}
	}
	full := fn.String()
	if fn.Origin() != nil {
		full = fn.Origin().String()
	}
	if m, ok := in.P.Overrides[full]; ok {
		mf := in.P.lookupFunc(fn.Pkg, m)
		if mf == nil {
			fail("override model %s for %s not found", m, full)
		}
		return in.callFunction(mf, args, nil)
	}
	if h, ok := externals[full]; ok {
		return h(in, fn, args)
	}
	if fn.Blocks == nil {
		// body-less (assembly): look for a Go contract model in the overlay
		if fn.Pkg != nil {
			if mf := in.P.lookupFunc(fn.Pkg, "verifModel_"+name); mf != nil {
				return in.callFunction(mf, args, nil)
			}
			// standard-library convention: the portable Go twin of an assembly routine is <name>_g (math/big)
			if mf := in.P.lookupFunc(fn.Pkg, name+"_g"); mf != nil && mf.Blocks != nil {
				return in.callFunction(mf, args, nil)
			}
		}
		fail("call of body-less function %s without model", full)
	}
	return in.callFunction(fn, args, bind)
}

func (in *Interp) callExternal(fn *ssa.Function, args []Value) Value {
	fail("call of body-less function %s", fn)
	return nil
}

// callValue calls a closure value with args (used by intrinsics).
func (in *Interp) callValue(f Value, args []Value) Value {
	cl := f.(*Closure)
	if cl == nil {
		in.goPanicf("call of nil function")
	}
	return in.callFn(cl.Fn, args, cl.Bind)
}

func (in *Interp) builtin(fr *frame, cc *ssa.CallCommon, b *ssa.Builtin, args []Value, deferred bool) Value {
	c := in.C
	switch b.Name() {
	case "len":
		switch x := args[0].(type) {
		case Slice:
			return c.Const(64, uint64(x.Len))
		case Str:
			return c.Const(64, uint64(len(x.S)))
		case *MapV:
			if x == nil {
				return c.Const(64, 0)
			}
			return c.Const(64, uint64(len(x.Keys)))
		case Pointer: // *array
			at := cc.Args[0].Type().Underlying().(*types.Pointer).Elem().Underlying().(*types.Array)
			return c.Const(64, uint64(at.Len()))
		case Agg:
			at := cc.Args[0].Type().Underlying().(*types.Array)
			return c.Const(64, uint64(at.Len()))
		}
	case "cap":
		switch x := args[0].(type) {
		case Slice:
			return c.Const(64, uint64(x.Cap))
		case Pointer:
			at := cc.Args[0].Type().Underlying().(*types.Pointer).Elem().Underlying().(*types.Array)
			return c.Const(64, uint64(at.Len()))
		}
	case "copy":
		dst := args[0].(Slice)
		var n int
		switch src := args[1].(type) {
		case Slice:
			n = min(dst.Len, src.Len)
			if n > 0 {
				tmp := make([]Value, n*src.Stride)
				copy(tmp, src.Obj.Cells[src.Off:src.Off+n*src.Stride])
				in.touch(dst.Obj)
				copy(dst.Obj.Cells[dst.Off:], tmp)
			}
		case Str:
			n = min(dst.Len, len(src.S))
			if n > 0 {
				in.touch(dst.Obj)
				for i := 0; i < n; i++ {
					dst.Obj.Cells[dst.Off+i] = in.strByte(src, i)
				}
			}
		}
		return c.Const(64, uint64(n))
	case "append":
		s := args[0].(Slice)
		var add []Value
		stride := s.Stride
		n := 0
		switch x := args[1].(type) {
		case Slice:
			n = x.Len
			if n > 0 {
				add = append(add, x.Obj.Cells[x.Off:x.Off+n*x.Stride]...)
				stride = x.Stride
			}
		case Str:
			n = len(x.S)
			add = in.strCells(x)
			stride = 1
		}
		if stride == 0 {
			et := cc.Args[0].Type().Underlying().(*types.Slice).Elem()
			stride = in.layoutOf(et).cells
		}
		if n == 0 {
			return s
		}
		if s.Obj != nil && s.Len+n <= s.Cap {
			in.touch(s.Obj)
			copy(s.Obj.Cells[s.Off+s.Len*stride:], add)
			return Slice{Obj: s.Obj, Off: s.Off, Len: s.Len + n, Cap: s.Cap, Stride: stride}
		}
		// reallocate with exact capacity (growth policy is unspecified in Go)
		cells := make([]Value, 0, (s.Len+n)*stride)
		if s.Obj != nil {
			cells = append(cells, s.Obj.Cells[s.Off:s.Off+s.Len*stride]...)
		}
		cells = append(cells, add...)
		o := in.newObject(cells, "append")
		return Slice{Obj: o, Off: 0, Len: s.Len + n, Cap: s.Len + n, Stride: stride}
	case "panic":
		panic(&goPanic{val: args[0], desc: "panic: " + in.describe(args[0])})
	case "recover":
		// valid only when called directly by a deferred function while panicking
		if fr.caller != nil && fr.caller.panicking != nil {
			p := fr.caller.panicking
			fr.caller.panicking = nil
			fr.caller.recovered = true
			return p.val
		}
		return Iface{}
	case "min", "max":
		r := in.term(args[0])
		signed := isSigned(cc.Args[0].Type())
		for _, a := range args[1:] {
			t := in.term(a)
			var lt *smt.Term
			if signed {
				lt = c.Slt(t, r)
			} else {
				lt = c.Ult(t, r)
			}
			if b.Name() == "max" {
				lt = c.Not(c.Or(lt, c.Eq(t, r)))
			}
			r = c.Ite(lt, t, r)
		}
		return r
	case "clear":
		switch x := args[0].(type) {
		case Slice:
			if x.Len > 0 {
				et := cc.Args[0].Type().Underlying().(*types.Slice).Elem()
				z := in.zeroCells(nil, et)
				in.touch(x.Obj)
				for i := 0; i < x.Len; i++ {
					copy(x.Obj.Cells[x.Off+i*x.Stride:], z)
				}
			}
		case *MapV:
			if x != nil {
				x.Keys, x.KeyS, x.Vals = nil, nil, map[string]Value{}
			}
		}
		return nil
	case "delete":
		m := args[0].(*MapV)
		if m != nil {
			ks := in.mapKey(args[1])
			if _, ok := m.Vals[ks]; ok {
				delete(m.Vals, ks)
				for i, k := range m.KeyS {
					if k == ks {
						m.KeyS = append(m.KeyS[:i], m.KeyS[i+1:]...)
						m.Keys = append(m.Keys[:i], m.Keys[i+1:]...)
						break
					}
				}
			}
		}
		return nil
	case "Slice": // unsafe.Slice(ptr, n): the footprint must lie inside the underlying object
		p := args[0].(Pointer)
		n := in.concInt(args[1], "unsafe.Slice length")
		if p.Obj == nil {
			if n == 0 {
				return Slice{}
			}
			in.goPanicf("unsafe.Slice: nil pointer with non-zero length")
		}
		p = in.concretePtr(p)
		et := cc.Args[0].Type().Underlying().(*types.Pointer).Elem()
		stride := in.layoutOf(et).cells
		if n < 0 || p.Off+n*stride > len(p.Obj.Cells) {
			in.goPanicf("unsafe.Slice: %d elements at offset %d exceed the underlying object (%d cells): access outside the memory handed to the routine", n, p.Off, len(p.Obj.Cells))
		}
		return Slice{Obj: p.Obj, Off: p.Off, Len: n, Cap: n, Stride: stride}
	case "SliceData":
		s := args[0].(Slice)
		if s.Obj == nil {
			return Pointer{}
		}
		return Pointer{Obj: s.Obj, Off: s.Off}
	case "Add": // unsafe.Add on byte-granular objects only
		p := args[0].(Pointer)
		n := in.concInt(args[1], "unsafe.Add offset")
		return Pointer{Obj: p.Obj, Off: p.Off + n}
	case "print", "println":
		return nil
	case "ssa:wrapnilchk":
		if p, ok := args[0].(Pointer); ok && p.Obj == nil {
			in.goPanicf("value method called using nil pointer")
		}
		return args[0]
	}
	fail("unsupported builtin %s on %T", b.Name(), args[0])
	return nil
}

// ---------- helpers for byte slices ----------

func (in *Interp) sliceBytes(v Value) []*smt.Term {
	s := v.(Slice)
	out := make([]*smt.Term, s.Len)
	for i := 0; i < s.Len; i++ {
		out[i] = in.term(s.Obj.Cells[s.Off+i*s.Stride])
	}
	return out
}

func (in *Interp) newByteSlice(bs []*smt.Term, cp int, name string) Slice {
	if cp < len(bs) {
		cp = len(bs)
	}
	cells := make([]Value, cp)
	for i := range cells {
		if i < len(bs) {
			cells[i] = bs[i]
		} else {
			cells[i] = in.C.Const(8, 0)
		}
	}
	return Slice{Obj: in.newObject(cells, name), Len: len(bs), Cap: cp, Stride: 1}
}

func (in *Interp) concStr(v Value) string {
	s := v.(Str)
	if s.Sym != nil {
		fail("symbolic string where a concrete one is required")
	}
	return s.S
}

func (in *Interp) boolTerm(v Value) *smt.Term {
	t := in.term(v)
	if t.W != 0 {
		fail("expected bool")
	}
	return t
}

// errorValue creates an error interface value carrying msg (type *errors.errorString).
func (in *Interp) errorValue(msg string) Value {
	t := in.P.errorStringPtr()
	p := in.allocType(t.Elem(), "error")
	p.Obj.Cells[0] = Str{S: msg}
	return Iface{T: t, V: p}
}

var _ = fmt.Sprintf
