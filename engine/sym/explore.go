package sym

import (
	"runtime"
	"fmt"
	"os"
	"math/big"
	"sort"
	"strings"
	"time"

	"gosym/smt"
)

type Status int

const (
	StatusOK Status = iota
	StatusViolation
	StatusUnwind
	StatusUnknown // solver unknown/timeout/error
	StatusError   // engine error (unsupported feature...)
)

func (s Status) String() string {
	return [...]string{"ok", "violation", "unwind", "unknown", "error"}[s]
}

type decision struct {
	val  int64
	alts []int64 // remaining alternatives (only meaningful when first taken)
}

// Violation describes a failed assertion / unexpected panic with a model.
type Violation struct {
	Kind    string            `json:"kind"` // assert | panic
	Msg     string            `json:"msg"`
	Model   map[string]string `json:"model"` // var name -> hex value
	Params  map[string]int    `json:"params"`
	Harness string            `json:"harness"`
	Path    []int64           `json:"path"`
}

// Explorer drives DFS path exploration of one harness case.
type Explorer struct {
	C         *smt.Ctx
	S         *smt.Solver
	S2        *smt.Solver // optional cross-check solver
	SoftBranch bool // branch feasibility: a query undecided within SoftMs keeps the branch (both sides explored); reach tags and violations are then confirmed by a full query
	SoftMs    int
	Alt       []*smt.Solver // portfolio: asked (in order, before S2) when the primary leaves a query undecided
	In        *Interp
	Params    map[string]int
	MaxSteps  int64
	MaxUnwind int
	MaxAlloc  int
	MaxPaths  int
	Deadline  time.Time
	// results
	Paths       int
	Obligations int
	Discharged  int // by solver (unsat)
	Trivial     int // discharged by simplification
	Violations  []*Violation
	Status      Status
	StatusMsg   string
	Reached     map[string]bool
	Vars        map[string]*smt.Term
	varOrder    []string
	// dfs
	prefix   []int64
	pos      int
	pending  [][]int64
	trace    []int64
	StopAtFirst bool
	CrossEvery  int
	crossCnt    int
	Observed    []string
	ExpectPanic bool
	SamplePaths []string
	assertedOK  map[int]bool
	SimHits     int
	Sweeper *smt.Sweeper
	SweepProved, SweepCandidates int
	NoSim       bool
}

// simulate looks for a counterexample to goal under the path condition by evaluating the encoding on a
// few pseudo-random assignments (uninterpreted functions read as fixed random functions).  It only ever
// produces counterexamples (which are then replayed natively); "holds" is always the solver's verdict.
func (x *Explorer) simulate(goal *smt.Term) smt.Model {
	if x.NoSim {
		return nil
	}
	// inverse-paired permutations are not modelled by the hash interpretation
	if len(x.C.Inverse) > 0 && usesInverse(goal, x.In.pc) {
		return nil
	}
	for k := uint64(1); k <= 3; k++ {
		ev := smt.NewEvaluator(nil, k*0x9e3779b97f4a7c15)
		ok := true
		for _, p := range x.In.pc {
			if ev.Eval(p).Sign() == 0 {
				ok = false
				break
			}
		}
		if !ok {
			continue
		}
		if ev.Eval(goal).Sign() != 0 {
			continue
		}
		m := smt.Model{}
		for _, n := range x.varOrder {
			m[n] = ev.Eval(x.Vars[n])
		}
		return m
	}
	return nil
}

func usesInverse(goal *smt.Term, pc []*smt.Term) bool {
	seen := map[int]bool{}
	found := false
	var walk func(t *smt.Term)
	walk = func(t *smt.Term) {
		if found || seen[t.ID] {
			return
		}
		seen[t.ID] = true
		if t.Op == smt.OpUF && strings.Contains(t.Name, "_D_") {
			found = true
			return
		}
		for _, a := range t.Args {
			walk(a)
		}
	}
	walk(goal)
	for _, p := range pc {
		walk(p)
	}
	return found
}

type abortPath struct {
	status Status
	msg    string
}

func (x *Explorer) abortPath(st Status, msg string) {
	panic(abortPath{st, msg})
}

func (x *Explorer) setStatus(st Status, msg string) {
	// severity: violation > error > unknown > unwind > ok ; keep the first message of the worst
	rank := map[Status]int{StatusOK: 0, StatusUnwind: 1, StatusUnknown: 2, StatusError: 3, StatusViolation: 4}
	if rank[st] > rank[x.Status] {
		x.Status = st
		x.StatusMsg = msg
	}
}

// check runs the solver on pc ∧ extra.
func (x *Explorer) check(extra []*smt.Term, wantModel bool) (smt.Result, smt.Model) {
	as := append(append([]*smt.Term(nil), x.In.pc...), extra...)
	var vars []*smt.Term
	if wantModel {
		for _, n := range x.varOrder {
			vars = append(vars, x.Vars[n])
		}
	}
	t0 := time.Now()
	res, m, err := x.S.Check(x.C, as, vars)
	if branchLog {
		fmt.Fprintf(os.Stderr, "QUERY %v %.2fs pc=%d\n", res, time.Since(t0).Seconds(), len(x.In.pc))
		if res == smt.Unknown {
			buf := make([]byte, 3000)
			n := runtime.Stack(buf, false)
			fmt.Fprintf(os.Stderr, "%s\n", buf[:n])
		}
	}
	if err != nil || res == smt.Unknown {
		for _, a := range x.Alt {
			t1 := time.Now()
			res2, m2, err2 := a.Check(x.C, as, vars)
			if branchLog {
				fmt.Fprintf(os.Stderr, "QUERY(alt %s) %v %.2fs\n", a.Kind, res2, time.Since(t1).Seconds())
			}
			x.S.Stats.Add(a.Stats)
			a.Stats = &smt.Stats{}
			if err2 == nil && res2 != smt.Unknown {
				return res2, m2
			}
		}
		// retry once on a fresh cross-check solver if available
		if x.S2 != nil {
			res2, m2, err2 := x.S2.Check(x.C, as, vars)
			if err2 == nil && res2 != smt.Unknown {
				return res2, m2
			}
		}
		msg := "solver returned unknown"
		if err != nil {
			msg = err.Error()
		}
		x.abortPath(StatusUnknown, msg)
	}
	if x.S2 != nil && x.CrossEvery > 0 {
		x.crossCnt++
		if x.crossCnt%x.CrossEvery == 0 {
			res2, _, err2 := x.S2.Check(x.C, as, nil)
			if err2 == nil && res2 != smt.Unknown && res2 != res {
				x.abortPath(StatusError, fmt.Sprintf("solver disagreement: %s says %v, %s says %v", x.S.Kind, res, x.S2.Kind, res2))
			}
		}
	}
	return res, m
}

// checkSoft: feasibility of pc ∧ extra within the short budget, on the primary solver only; never aborts.
func (x *Explorer) checkSoft(extra []*smt.Term) smt.Result {
	as := append(append([]*smt.Term(nil), x.In.pc...), extra...)
	old := x.S.TimeoutMs
	ms := x.SoftMs
	if ms <= 0 {
		ms = 3000
	}
	x.S.SetTimeout(ms)
	t0 := time.Now()
	res, _, err := x.S.Check(x.C, as, nil)
	x.S.SetTimeout(old)
	if branchLog {
		fmt.Fprintf(os.Stderr, "QUERY(soft) %v %.2fs pc=%d\n", res, time.Since(t0).Seconds(), len(x.In.pc))
	}
	if err != nil {
		return smt.Unknown
	}
	return res
}

// pathFeasible: full-strength query (portfolio); Unknown is reported, not fatal.
func (x *Explorer) pathFeasible() (res smt.Result) {
	defer func() {
		if r := recover(); r != nil {
			if _, ok := r.(abortPath); ok {
				res = smt.Unknown
				return
			}
			panic(r)
		}
	}()
	res, _ = x.check(nil, false)
	return
}

func (x *Explorer) nextDecision() (int64, bool) {
	if x.pos < len(x.prefix) {
		v := x.prefix[x.pos]
		x.pos++
		x.trace = append(x.trace, v)
		return v, true
	}
	return 0, false
}

func (x *Explorer) record(v int64, alts []int64) {
	for _, a := range alts {
		p := append(append([]int64(nil), x.trace...), a)
		x.pending = append(x.pending, p)
	}
	x.trace = append(x.trace, v)
	x.pos++
}

// branch decides a symbolic condition, forking when both outcomes are feasible.
func (in *Interp) branch(c *smt.Term, what string) bool {
	if c.IsTrue() {
		return true
	}
	if c.IsFalse() {
		return false
	}
	x := in.X
	if in.known[c.ID] {
		return true
	}
	nc := in.C.Not(c)
	if in.known[nc.ID] {
		return false
	}
	if in.inInit > 0 {
		fail("symbolic branch during package init (%s)", what)
	}
	if v, ok := x.nextDecision(); ok {
		if v == 1 {
			in.addPC(c)
			return true
		}
		in.addPC(nc)
		return false
	}
	if branchLog {
		fmt.Fprintf(os.Stderr, "BRANCH %s\n", what)
	}
	var rt, rf smt.Result
	if x.SoftBranch {
		rt = x.checkSoft([]*smt.Term{c})
	} else {
		rt, _ = x.check([]*smt.Term{c}, false)
	}
	if rt == smt.Unsat {
		x.record(0, nil)
		in.addPC(nc) // implied; keeps known-set useful
		return false
	}
	if x.SoftBranch {
		rf = x.checkSoft([]*smt.Term{nc})
	} else {
		rf, _ = x.check([]*smt.Term{nc}, false)
	}
	if rf == smt.Unsat {
		x.record(1, nil)
		in.addPC(c)
		return true
	}
	x.record(1, []int64{0})
	in.addPC(c)
	return true
}

func (in *Interp) addPC(c *smt.Term) {
	if c.IsTrue() {
		return
	}
	in.pc = append(in.pc, c)
	in.known[c.ID] = true
	if c.Op == smt.OpAnd {
		for _, a := range c.Args {
			in.known[a.ID] = true
		}
	}
}

// assume adds c to the path condition; ends the path if infeasible.
func (in *Interp) assume(c *smt.Term) {
	if c.IsTrue() {
		return
	}
	if c.IsFalse() {
		panic(pathEnd{"assume false"})
	}
	in.addPC(c)
	if in.X.pos < len(in.X.prefix) {
		return // replaying: feasibility known
	}
	var r smt.Result
	if in.X.SoftBranch {
		r = in.X.checkSoft(nil)
	} else {
		r, _ = in.X.check(nil, false)
	}
	if r == smt.Unsat {
		panic(pathEnd{"assumption infeasible"})
	}
}

const maxConcretize = 600

// concretize forks over all feasible values of t.
func (in *Interp) concretize(t *smt.Term, what string) *smt.Term {
	if t.IsConst() {
		return t
	}
	x := in.X
	if in.inInit > 0 {
		fail("symbolic value concretised during package init (%s)", what)
	}
	if v, ok := x.nextDecision(); ok {
		k := in.C.Const(t.W, uint64(v))
		in.addPC(in.C.Eq(t, k))
		return k
	}
	// enumerate feasible values
	var vals []int64
	var excl []*smt.Term
	tv := in.C.Var(fmt.Sprintf("conc!%d", t.ID), t.W)
	link := in.C.Eq(tv, t)
	for {
		as := append([]*smt.Term{link}, excl...)
		asAll := append(append([]*smt.Term(nil), in.pc...), as...)
		res, m, err := x.S.Check(x.C, asAll, []*smt.Term{tv})
		if err != nil || res == smt.Unknown {
			x.abortPath(StatusUnknown, "solver unknown while concretising "+what)
		}
		if res == smt.Unsat {
			break
		}
		v := m[tv.Name].Uint64()
		vals = append(vals, int64(v))
		excl = append(excl, in.C.Ne(t, in.C.Const(t.W, v)))
		if len(vals) > maxConcretize {
			x.abortPath(StatusUnwind, fmt.Sprintf("more than %d feasible values while concretising %s", maxConcretize, what))
		}
	}
	if len(vals) == 0 {
		panic(pathEnd{"no feasible value"})
	}
	sort.Slice(vals, func(i, j int) bool { return uint64(vals[i]) < uint64(vals[j]) })
	x.record(vals[0], vals[1:])
	k := in.C.Const(t.W, uint64(vals[0]))
	in.addPC(in.C.Eq(t, k))
	return k
}

// assert checks that c holds on every input reaching this point.
func (in *Interp) assert(c *smt.Term, msg string) {
	x := in.X
	if x.pos < len(x.prefix) {
		in.addPC(c) // replaying: this obligation was decided on an earlier path with the same prefix
		return
	}
	x.Obligations++
	if c.IsTrue() {
		x.Trivial++
		return
	}
	if in.known[c.ID] {
		x.Trivial++
		return
	}
	if m := x.simulate(c); m != nil {
		x.SimHits++
		x.violation("assert", msg, m)
		panic(pathEnd{"assertion violated"})
	}
	res, model := x.check([]*smt.Term{in.C.Not(c)}, true)
	if res == smt.Unsat {
		x.Discharged++
		in.addPCNoCheck(c)
		return
	}
	x.violation("assert", msg, model)
	// the path ends at the first violated assertion (other paths continue)
	panic(pathEnd{"assertion violated"})
}

func (in *Interp) addPCNoCheck(c *smt.Term) { in.addPC(c) }

func (x *Explorer) violation(kind, msg string, model smt.Model) {
	v := &Violation{Kind: kind, Msg: msg, Model: map[string]string{}, Params: x.Params, Path: append([]int64(nil), x.trace...)}
	for n, val := range model {
		v.Model[n] = val.Text(16)
	}
	x.Violations = append(x.Violations, v)
	x.setStatus(StatusViolation, msg)
	if x.StopAtFirst {
		panic(abortPath{StatusViolation, msg})
	}
}

// modelForPath gets a model of the current path condition.
func (x *Explorer) modelForPath() smt.Model {
	res, m := x.check(nil, true)
	if res != smt.Sat {
		return nil
	}
	return m
}

// NewVar creates (or returns) the nondet variable for tag occurrence.
func (in *Interp) newVar(tag string, w int) *smt.Term {
	if in.inInit > 0 {
		fail("nondet during package init")
	}
	k := in.tagCount[tag]
	in.tagCount[tag] = k + 1
	name := fmt.Sprintf("%s#%d", tag, k)
	if strings.ContainsAny(name, "|\\") {
		fail("bad tag %q", tag)
	}
	v := in.C.Var(name, w)
	if _, ok := in.X.Vars[name]; !ok {
		in.X.Vars[name] = v
		in.X.varOrder = append(in.X.varOrder, name)
	}
	return v
}

// Run explores all paths of the harness function.
func (x *Explorer) Run(entry func()) {
	x.pending = [][]int64{{}}
	for len(x.pending) > 0 {
		if x.MaxPaths > 0 && x.Paths >= x.MaxPaths {
			x.setStatus(StatusUnwind, fmt.Sprintf("path bound %d exceeded", x.MaxPaths))
			return
		}
		if !x.Deadline.IsZero() && time.Now().After(x.Deadline) {
			x.setStatus(StatusUnknown, "case deadline exceeded")
			return
		}
		n := len(x.pending) - 1
		x.prefix = x.pending[n]
		x.pending = x.pending[:n]
		x.pos = 0
		x.trace = x.trace[:0]
		x.In.resetPath()
		stop := x.runOne(entry)
		x.Paths++
		if stop {
			return
		}
	}
}

func (x *Explorer) runOne(entry func()) (stop bool) {
	defer func() {
		r := recover()
		if r == nil {
			return
		}
		switch e := r.(type) {
		case pathEnd:
		case abortPath:
			x.setStatus(e.status, e.msg)
			if e.status == StatusViolation && x.StopAtFirst {
				stop = true
			}
			if e.status == StatusError {
				stop = true
			}
		case engineError:
			x.setStatus(StatusError, e.msg)
			stop = true
		case *goPanic:
			// uncaught Go panic on a feasible path: violation
			var model smt.Model
			func() {
				defer func() {
					if r2 := recover(); r2 != nil {
						if ap, ok := r2.(abortPath); ok {
							x.setStatus(ap.status, ap.msg)
						}
					}
				}()
				model = x.modelForPath()
			}()
			if x.SoftBranch && model == nil && x.pathFeasible() == smt.Unsat {
				return // a panic on a path kept only because its feasibility was undecided
			}
			func() {
				defer func() { recover() }()
				x.violation("panic", e.desc, model)
			}()
			if x.StopAtFirst {
				stop = true
			}
		default:
			panic(r)
		}
	}()
	entry()
	if len(x.SamplePaths) < 3 {
		x.SamplePaths = append(x.SamplePaths, fmt.Sprintf("decisions=%v pc_terms=%d", x.trace, len(x.In.pc)))
	}
	return false
}

func hexOf(v *big.Int) string { return v.Text(16) }

var branchLog = os.Getenv("VERIF_BRANCHLOG") != ""
