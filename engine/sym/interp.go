package sym

import (
	"fmt"
	"go/constant"
	"go/token"
	"go/types"
	"strings"

	"gosym/smt"

	"golang.org/x/tools/go/ssa"
)

type fnInfo struct {
	reg  map[ssa.Value]int
	nreg int
}

type frame struct {
	fn      *ssa.Function
	info    *fnInfo
	regs    []Value
	defers  []deferred
	block   *ssa.BasicBlock
	prev    *ssa.BasicBlock
	backcnt map[int]int
	result  Value
	panicking *goPanic
	recovered bool
	caller  *frame
}

type deferred struct {
	fn   Value
	args []Value
	call *ssa.CallCommon
}

// Interp holds the state of one symbolic execution (one path at a time).
type Interp struct {
	P        *Program
	C        *smt.Ctx
	X        *Explorer
	layouts  map[types.Type]*layout
	fnInfos  map[*ssa.Function]*fnInfo
	globals  map[*ssa.Global]*Object
	inited   map[*ssa.Package]bool
	initing  map[*ssa.Package]bool
	inInit   int
	baseObjs []*Object
	dirtyObjs []*Object
	nextObj  int
	// per path
	pc       []*smt.Term
	known    map[int]bool
	steps    int64
	depth    int
	tagCount map[string]int
	randFailed bool
	top      *frame
	ghost    map[string]Value
	Steps    int64 // total
	fnsSeen  map[*ssa.Function]bool
	curFrame *frame
	sweepHints []*smt.Term
}

func NewInterp(p *Program, x *Explorer) *Interp {
	in := &Interp{P: p, C: x.C, X: x,
		layouts: map[types.Type]*layout{}, fnInfos: map[*ssa.Function]*fnInfo{},
		globals: map[*ssa.Global]*Object{}, inited: map[*ssa.Package]bool{}, initing: map[*ssa.Package]bool{},
		fnsSeen: map[*ssa.Function]bool{}}
	return in
}

func (in *Interp) touch(o *Object) {
	if o.Base && !o.dirty && in.inInit == 0 {
		o.dirty = true
		o.snap = append([]Value(nil), o.Cells...)
		in.dirtyObjs = append(in.dirtyObjs, o)
	}
}

// resetPath restores base objects and clears per-path state.
func (in *Interp) resetPath() {
	for _, o := range in.dirtyObjs {
		o.Cells = o.snap
		o.snap = nil
		o.dirty = false
	}
	in.dirtyObjs = in.dirtyObjs[:0]
	in.pc = in.pc[:0]
	in.known = map[int]bool{}
	in.steps = 0
	in.depth = 0
	in.tagCount = map[string]int{}
	in.ghost = map[string]Value{}
	in.sweepHints = nil
	in.curFrame = nil
}

func (in *Interp) info(fn *ssa.Function) *fnInfo {
	if fi, ok := in.fnInfos[fn]; ok {
		return fi
	}
	fi := &fnInfo{reg: map[ssa.Value]int{}}
	n := 0
	for _, p := range fn.Params {
		fi.reg[p] = n
		n++
	}
	for _, fv := range fn.FreeVars {
		fi.reg[fv] = n
		n++
	}
	for _, b := range fn.Blocks {
		for _, ins := range b.Instrs {
			if v, ok := ins.(ssa.Value); ok {
				fi.reg[v] = n
				n++
			}
		}
	}
	fi.nreg = n
	in.fnInfos[fn] = fi
	return fi
}

// ---------- globals & init ----------

func (in *Interp) globalObj(g *ssa.Global) *Object {
	if o, ok := in.globals[g]; ok {
		return o
	}
	pkg := g.Pkg
	if pkg != nil && !in.inited[pkg] && !in.initing[pkg] && in.P.needsInit(g) {
		in.runInit(pkg)
		if o, ok := in.globals[g]; ok {
			return o
		}
	}
	t := g.Type().(*types.Pointer).Elem()
	in.inInit++
	cells := in.zeroCells(nil, t)
	o := in.newObject(cells, g.String())
	in.inInit--
	in.globals[g] = o
	return o
}

// runInit executes pkg.init concretely (nested package inits are triggered lazily instead).
func (in *Interp) runInit(pkg *ssa.Package) {
	if in.inited[pkg] || in.initing[pkg] {
		return
	}
	if !in.P.initAllowed(pkg) {
		fail("package %s needs initialisation but is not on the init allow-list", pkg.Pkg.Path())
	}
	in.initing[pkg] = true
	in.inInit++
	savedPC, savedKnown, savedFrame := in.pc, in.known, in.curFrame
	in.pc, in.known = nil, map[int]bool{}
	initFn := pkg.Func("init")
	// the init guard may have been set by a skipped nested call; clear it
	if g, ok := pkg.Members["init$guard"].(*ssa.Global); ok {
		if o, ok := in.globals[g]; ok {
			o.Cells[0] = in.C.False
		}
	}
	func() {
		defer func() {
			in.inInit--
			in.pc, in.known, in.curFrame = savedPC, savedKnown, savedFrame
			delete(in.initing, pkg)
		}()
		in.callFunction(initFn, nil, nil)
	}()
	in.inited[pkg] = true
}

// ---------- execution ----------

func (in *Interp) get(fr *frame, v ssa.Value) Value {
	switch v := v.(type) {
	case *ssa.Const:
		return in.constValue(v)
	case *ssa.Global:
		return Pointer{Obj: in.globalObj(v)}
	case *ssa.Function:
		return &Closure{Fn: v}
	case *ssa.Builtin:
		fail("builtin as value")
	}
	idx, ok := fr.info.reg[v]
	if !ok {
		fail("unknown ssa value %s in %s", v.Name(), fr.fn)
	}
	r := fr.regs[idx]
	if r == nil {
		fail("read of unset register %s in %s", v.Name(), fr.fn)
	}
	return r
}

func (in *Interp) set(fr *frame, v ssa.Value, val Value) {
	fr.regs[fr.info.reg[v]] = val
}

func (in *Interp) constValue(c *ssa.Const) Value {
	t := c.Type()
	if c.Value == nil {
		return in.zeroValue(t)
	}
	switch u := t.Underlying().(type) {
	case *types.Basic:
		if w, _, ok := intWidth(u); ok {
			if i, exact := constant.Uint64Val(constant.ToInt(c.Value)); exact {
				return in.C.Const(w, i)
			}
			i, _ := constant.Int64Val(constant.ToInt(c.Value))
			return in.C.Const(w, uint64(i))
		}
		switch u.Kind() {
		case types.Bool, types.UntypedBool:
			return in.C.Bool(constant.BoolVal(c.Value))
		case types.String, types.UntypedString:
			return Str{S: constant.StringVal(c.Value)}
		case types.Float32, types.Float64, types.UntypedFloat:
			f, _ := constant.Float64Val(c.Value)
			return floatVal(f)
		}
	case *types.TypeParam:
		fail("const of type param")
	}
	fail("unsupported constant %v of type %v", c, t)
	return nil
}

const maxDepth = 400

// callFunction runs fn with args and returns its result (nil, Value or Tuple).
func (in *Interp) callFunction(fn *ssa.Function, args []Value, bind []Value) (result Value) {
	if fn.Blocks == nil {
		return in.callExternal(fn, args)
	}
	in.depth++
	if in.depth > maxDepth {
		fail("call depth exceeded in %s", fn)
	}
	if !in.fnsSeen[fn] {
		in.fnsSeen[fn] = true
	}
	fi := in.info(fn)
	fr := &frame{fn: fn, info: fi, regs: make([]Value, fi.nreg), caller: in.curFrame}
	in.curFrame = fr
	n := 0
	if len(args) != len(fn.Params) {
		fail("arg count mismatch calling %s: %d vs %d", fn, len(args), len(fn.Params))
	}
	for _, a := range args {
		fr.regs[n] = a
		n++
	}
	for _, b := range bind {
		fr.regs[n] = b
		n++
	}
	defer func() {
		in.depth--
		in.curFrame = fr.caller
		if r := recover(); r != nil {
			gp, ok := r.(*goPanic)
			if !ok {
				panic(r)
			}
			// run deferred calls with the panic in flight
			fr.panicking = gp
			in.curFrame = fr
			in.runDefers(fr)
			in.curFrame = fr.caller
			if fr.panicking != nil {
				panic(fr.panicking)
			}
			// recovered: continue at the Recover block if any
			if fn.Recover != nil {
				in.curFrame = fr
				fr.block = fn.Recover
				fr.prev = nil
				result = in.runBlocks(fr)
				in.curFrame = fr.caller
			} else {
				result = in.zeroResults(fn)
			}
		}
	}()
	fr.block = fn.Blocks[0]
	return in.runBlocks(fr)
}

func (in *Interp) zeroResults(fn *ssa.Function) Value {
	res := fn.Signature.Results()
	switch res.Len() {
	case 0:
		return nil
	case 1:
		return in.zeroValue(res.At(0).Type())
	}
	return in.zeroValue(res)
}

func (in *Interp) runDefers(fr *frame) {
	for len(fr.defers) > 0 {
		d := fr.defers[len(fr.defers)-1]
		fr.defers = fr.defers[:len(fr.defers)-1]
		in.invokeDeferred(fr, d)
	}
}

func (in *Interp) invokeDeferred(fr *frame, d deferred) {
	// a panic inside a deferred call replaces the current one
	defer func() {
		if r := recover(); r != nil {
			if gp, ok := r.(*goPanic); ok {
				fr.panicking = gp
				in.runDefers(fr)
				return
			}
			panic(r)
		}
	}()
	in.doCall(fr, d.call, d.fn, d.args, true)
}

func (in *Interp) runBlocks(fr *frame) Value {
	for {
		b := fr.block
		var next *ssa.BasicBlock
		// phis are evaluated in parallel on block entry
		nphi := 0
		if _, ok := b.Instrs[0].(*ssa.Phi); ok {
			pi := -1
			for i, p := range b.Preds {
				if p == fr.prev {
					pi = i
					break
				}
			}
			var vals []Value
			for _, ins := range b.Instrs {
				phi, ok := ins.(*ssa.Phi)
				if !ok {
					break
				}
				vals = append(vals, in.get(fr, phi.Edges[pi]))
				nphi++
			}
			for i := 0; i < nphi; i++ {
				in.set(fr, b.Instrs[i].(*ssa.Phi), vals[i])
			}
		}
		for _, ins := range b.Instrs[nphi:] {
			in.steps++
			in.Steps++
			if in.steps > in.X.MaxSteps {
				in.X.abortPath(StatusUnwind, fmt.Sprintf("step budget exceeded in %s", fr.fn))
			}
			switch ins := ins.(type) {
			case *ssa.Jump:
				next = b.Succs[0]
			case *ssa.If:
				c := in.term(in.get(fr, ins.Cond))
				if in.branch(c, "if@"+in.posOf(ins, fr)) {
					next = b.Succs[0]
				} else {
					next = b.Succs[1]
				}
			case *ssa.Return:
				var res Value
				switch len(ins.Results) {
				case 0:
				case 1:
					res = in.get(fr, ins.Results[0])
				default:
					t := make(Tuple, len(ins.Results))
					for i, r := range ins.Results {
						t[i] = in.get(fr, r)
					}
					res = t
				}
				return res
			case *ssa.Panic:
				v := in.get(fr, ins.X)
				panic(&goPanic{val: v, desc: "explicit panic: " + in.describe(v) + " at " + in.posOf(ins, fr)})
			case *ssa.RunDefers:
				in.runDefers(fr)
			default:
				in.exec(fr, ins)
			}
		}
		if next == nil {
			fail("block without terminator in %s", fr.fn)
		}
		if next.Index <= b.Index {
			if fr.backcnt == nil {
				fr.backcnt = map[int]int{}
			}
			fr.backcnt[next.Index]++
			if fr.backcnt[next.Index] > in.X.MaxUnwind {
				in.X.abortPath(StatusUnwind, fmt.Sprintf("loop unwinding bound %d exceeded in %s", in.X.MaxUnwind, fr.fn))
			}
		}
		fr.prev = b
		fr.block = next
	}
}

func (in *Interp) posOf(ins ssa.Instruction, fr *frame) string {
	p := ins.Pos()
	if !p.IsValid() {
		// find nearest
		for _, i2 := range ins.Block().Instrs {
			if i2.Pos().IsValid() {
				p = i2.Pos()
				break
			}
		}
	}
	if p.IsValid() {
		pos := in.P.Fset.Position(p)
		f := pos.Filename
		if i := strings.Index(f, "/repo/"); i >= 0 {
			f = f[i+6:]
		}
		return fmt.Sprintf("%s:%d", f, pos.Line)
	}
	return fr.fn.String()
}

func (in *Interp) describe(v Value) string {
	switch v := v.(type) {
	case Iface:
		if v.T == nil {
			return "nil"
		}
		if s, ok := v.V.(Str); ok {
			return s.S
		}
		// error values: try Error string of errors.errorString
		if p, ok := v.V.(Pointer); ok && p.Obj != nil && len(p.Obj.Cells) > 0 {
			if s, ok := p.Obj.Cells[p.Off].(Str); ok {
				return v.T.String() + ":" + s.S
			}
		}
		return v.T.String()
	case Str:
		return v.S
	}
	return fmt.Sprintf("%T", v)
}

func (in *Interp) goPanicf(format string, args ...interface{}) {
	msg := fmt.Sprintf(format, args...)
	panic(&goPanic{val: Iface{T: types.Typ[types.String], V: Str{S: "runtime error: " + msg}}, desc: "runtime error: " + msg})
}

// ---------- instructions ----------

func (in *Interp) exec(fr *frame, ins ssa.Instruction) {
	switch ins := ins.(type) {
	case *ssa.DebugRef:
	case *ssa.Alloc:
		t := ins.Type().(*types.Pointer).Elem()
		in.set(fr, ins, in.allocType(t, ins.Comment))
	case *ssa.BinOp:
		in.set(fr, ins, in.binop(fr, ins, ins.Op, in.get(fr, ins.X), in.get(fr, ins.Y), ins.X.Type(), ins.Y.Type()))
	case *ssa.UnOp:
		in.set(fr, ins, in.unop(fr, ins))
	case *ssa.Call:
		res := in.call(fr, ins.Common(), ins)
		if res == nil {
			res = Tuple(nil)
		}
		in.set(fr, ins, res)
	case *ssa.Defer:
		fnv, args := in.prepareCall(fr, ins.Common())
		fr.defers = append(fr.defers, deferred{fn: fnv, args: args, call: ins.Common()})
	case *ssa.Go:
		fail("go statement not supported (%s)", in.posOf(ins, fr))
	case *ssa.Store:
		p := in.get(fr, ins.Addr).(Pointer)
		in.storePtr(fr, ins, p, in.get(fr, ins.Val), ins.Val.Type())
	case *ssa.FieldAddr:
		p := in.get(fr, ins.X).(Pointer)
		if p.Obj == nil {
			in.goPanicf("nil pointer dereference (field) at %s", in.posOf(ins, fr))
		}
		st := ins.X.Type().Underlying().(*types.Pointer).Elem()
		if p.Sym != nil {
			// field of a symbolically indexed array element: keep the symbolic index
			in.set(fr, ins, Pointer{Obj: p.Obj, Off: p.Off + in.layoutOf(st).fields[ins.Field], Sym: p.Sym, Stride: p.Stride, Count: p.Count})
			break
		}
		in.set(fr, ins, Pointer{Obj: p.Obj, Off: p.Off + in.layoutOf(st).fields[ins.Field]})
	case *ssa.Field:
		a := in.get(fr, ins.X).(Agg)
		l := in.layoutOf(ins.X.Type())
		off := l.fields[ins.Field]
		ft := ins.Type()
		if isAgg(ft) {
			n := in.layoutOf(ft).cells
			in.set(fr, ins, Agg(append([]Value(nil), a[off:off+n]...)))
		} else {
			in.set(fr, ins, a[off])
		}
	case *ssa.IndexAddr:
		in.set(fr, ins, in.indexAddr(fr, ins))
	case *ssa.Index:
		in.set(fr, ins, in.indexValue(fr, ins))
	case *ssa.Slice:
		in.set(fr, ins, in.sliceOp(fr, ins))
	case *ssa.MakeSlice:
		n := in.concInt(in.get(fr, ins.Len), "make len")
		cp := in.concInt(in.get(fr, ins.Cap), "make cap")
		if n < 0 || cp < n {
			in.goPanicf("makeslice: len out of range at %s", in.posOf(ins, fr))
		}
		if cp > in.X.MaxAlloc {
			fail("allocation of %d elements exceeds engine limit at %s", cp, in.posOf(ins, fr))
		}
		et := ins.Type().Underlying().(*types.Slice).Elem()
		in.set(fr, ins, in.makeSlice(et, n, cp))
	case *ssa.MakeInterface:
		in.set(fr, ins, Iface{T: ins.X.Type(), V: in.get(fr, ins.X)})
	case *ssa.MakeClosure:
		fn := ins.Fn.(*ssa.Function)
		bind := make([]Value, len(ins.Bindings))
		for i, b := range ins.Bindings {
			bind[i] = in.get(fr, b)
		}
		in.set(fr, ins, &Closure{Fn: fn, Bind: bind})
	case *ssa.MakeMap:
		in.set(fr, ins, &MapV{Vals: map[string]Value{}})
	case *ssa.MapUpdate:
		m := in.get(fr, ins.Map).(*MapV)
		if m == nil {
			in.goPanicf("assignment to entry in nil map")
		}
		k := in.get(fr, ins.Key)
		ks := in.mapKey(k)
		if _, ok := m.Vals[ks]; !ok {
			m.Keys = append(m.Keys, k)
			m.KeyS = append(m.KeyS, ks)
		}
		m.Vals[ks] = in.get(fr, ins.Value)
	case *ssa.Lookup:
		in.set(fr, ins, in.lookup(fr, ins))
	case *ssa.ChangeType:
		in.set(fr, ins, in.get(fr, ins.X))
	case *ssa.ChangeInterface:
		in.set(fr, ins, in.get(fr, ins.X))
	case *ssa.Convert:
		in.set(fr, ins, in.convert(fr, ins, in.get(fr, ins.X), ins.X.Type(), ins.Type()))
	case *ssa.MultiConvert:
		in.set(fr, ins, in.convert(fr, ins, in.get(fr, ins.X), ins.X.Type(), ins.Type()))
	case *ssa.SliceToArrayPointer:
		s := in.get(fr, ins.X).(Slice)
		at := ins.Type().Underlying().(*types.Pointer).Elem().Underlying().(*types.Array)
		if int(at.Len()) > s.Len {
			in.goPanicf("cannot convert slice with length %d to array or pointer to array with length %d at %s", s.Len, at.Len(), in.posOf(ins, fr))
		}
		if s.Obj == nil {
			in.set(fr, ins, Pointer{})
		} else {
			in.set(fr, ins, Pointer{Obj: s.Obj, Off: s.Off})
		}
	case *ssa.Extract:
		t := in.get(fr, ins.Tuple).(Tuple)
		in.set(fr, ins, t[ins.Index])
	case *ssa.TypeAssert:
		in.set(fr, ins, in.typeAssert(fr, ins))
	case *ssa.Range:
		in.set(fr, ins, in.rangeInit(fr, ins))
	case *ssa.Next:
		in.set(fr, ins, in.rangeNext(fr, ins))
	case *ssa.Select, *ssa.Send, *ssa.MakeChan:
		fail("channel operation not supported at %s", in.posOf(ins, fr))
	default:
		fail("unsupported instruction %T at %s", ins, in.posOf(ins, fr))
	}
}

// concretePtr resolves a symbolic-index pointer by forking on the index.
func (in *Interp) concretePtr(p Pointer) Pointer {
	if p.Sym == nil {
		return p
	}
	i := int(in.concretize(p.Sym, "pointer index").Int())
	return Pointer{Obj: p.Obj, Off: p.Off + i*p.Stride}
}

func (in *Interp) storePtr(fr *frame, ins ssa.Instruction, p Pointer, v Value, t types.Type) {
	if p.Obj == nil {
		in.goPanicf("nil pointer dereference (store) at %s", in.posOf(ins, fr))
	}
	if p.Sym != nil {
		if _, scalar := v.(*smt.Term); !scalar || isAgg(t) {
			p = in.concretePtr(p)
		} else {
			in.touch(p.Obj)
			nv := in.term(v)
			for i := 0; i < p.Count; i++ {
				old := in.term(p.Obj.Cells[p.Off+i*p.Stride])
				p.Obj.Cells[p.Off+i*p.Stride] = in.C.Ite(in.C.Eq(p.Sym, in.C.Const(p.Sym.W, uint64(i))), nv, old)
			}
			return
		}
	}
	in.storeAt(p.Obj, p.Off, v, t)
}

func (in *Interp) loadPtr(fr *frame, ins ssa.Instruction, p Pointer, t types.Type) Value {
	if p.Obj == nil {
		in.goPanicf("nil pointer dereference at %s", in.posOf(ins, fr))
	}
	if p.Sym != nil {
		if isAgg(t) {
			p = in.concretePtr(p)
		} else {
			return in.selectCellStride(p.Obj, p.Off, p.Count, p.Stride, p.Sym)
		}
	}
	return in.loadAt(p.Obj, p.Off, t)
}

func (in *Interp) selectCell(o *Object, off, count int, idx *smt.Term) Value {
	return in.selectCellStride(o, off, count, 1, idx)
}

// selectCellStride builds a balanced ite tree selecting cells[off+idx*stride].
func (in *Interp) selectCellStride(o *Object, off, count, stride int, idx *smt.Term) Value {
	if _, ok := o.Cells[off].(*smt.Term); !ok {
		// non-scalar cells: fork
		i := int(in.concretize(idx, "index").Int())
		return o.Cells[off+i*stride]
	}
	var build func(lo, hi int) *smt.Term
	build = func(lo, hi int) *smt.Term {
		if hi-lo == 1 {
			return o.Cells[off+lo*stride].(*smt.Term)
		}
		mid := (lo + hi) / 2
		return in.C.Ite(in.C.Ult(idx, in.C.Const(idx.W, uint64(mid))), build(lo, mid), build(mid, hi))
	}
	return build(0, count)
}

func (in *Interp) makeSlice(et types.Type, n, cp int) Slice {
	stride := in.layoutOf(et).cells
	cells := make([]Value, 0, cp*stride)
	if cp > 0 {
		z := in.zeroCells(nil, et)
		for i := 0; i < cp; i++ {
			cells = append(cells, z...)
		}
	}
	o := in.newObject(cells, "makeslice")
	return Slice{Obj: o, Off: 0, Len: n, Cap: cp, Stride: stride}
}

// index check: returns concrete index or symbolic (after forking away the out-of-range case)
func (in *Interp) checkIndex(fr *frame, ins ssa.Instruction, idx *smt.Term, signed bool, n int) (int, *smt.Term) {
	if idx.IsConst() {
		var i int64
		if signed {
			i = idx.Int()
		} else {
			i = int64(idx.Uint())
			if idx.Uint() > 1<<62 {
				i = -1
			}
		}
		if i < 0 || i >= int64(n) {
			in.goPanicf("index out of range [%d] with length %d at %s", i, n, in.posOf(ins, fr))
		}
		return int(i), nil
	}
	i64 := in.C.Resize(idx, 64, signed)
	inb := in.C.Ult(i64, in.C.Const(64, uint64(n)))
	if !in.branch(inb, "bounds@"+in.posOf(ins, fr)) {
		in.goPanicf("index out of range [symbolic] with length %d at %s", n, in.posOf(ins, fr))
	}
	return 0, i64
}

func isSigned(t types.Type) bool {
	if b, ok := t.Underlying().(*types.Basic); ok {
		_, s, _ := intWidth(b)
		return s
	}
	return false
}

func (in *Interp) indexAddr(fr *frame, ins *ssa.IndexAddr) Value {
	x := in.get(fr, ins.X)
	idx := in.term(in.get(fr, ins.Index))
	signed := isSigned(ins.Index.Type())
	switch xv := x.(type) {
	case Slice:
		i, sym := in.checkIndex(fr, ins, idx, signed, xv.Len)
		if sym != nil {
			return Pointer{Obj: xv.Obj, Off: xv.Off, Sym: sym, Stride: xv.Stride, Count: xv.Len}
		}
		return Pointer{Obj: xv.Obj, Off: xv.Off + i*xv.Stride}
	case Pointer:
		if xv.Obj == nil {
			in.goPanicf("nil pointer dereference (index) at %s", in.posOf(ins, fr))
		}
		xv = in.concretePtr(xv)
		at := ins.X.Type().Underlying().(*types.Pointer).Elem().Underlying().(*types.Array)
		stride := in.layoutOf(at.Elem()).cells
		i, sym := in.checkIndex(fr, ins, idx, signed, int(at.Len()))
		if sym != nil {
			return Pointer{Obj: xv.Obj, Off: xv.Off, Sym: sym, Stride: stride, Count: int(at.Len())}
		}
		return Pointer{Obj: xv.Obj, Off: xv.Off + i*stride}
	}
	fail("IndexAddr on %T", x)
	return nil
}

func (in *Interp) indexValue(fr *frame, ins *ssa.Index) Value {
	x := in.get(fr, ins.X)
	idx := in.term(in.get(fr, ins.Index))
	signed := isSigned(ins.Index.Type())
	switch xv := x.(type) {
	case Agg:
		at := ins.X.Type().Underlying().(*types.Array)
		stride := in.layoutOf(at.Elem()).cells
		i, sym := in.checkIndex(fr, ins, idx, signed, int(at.Len()))
		if sym != nil {
			o := &Object{Cells: xv}
			if stride == 1 {
				return in.selectCell(o, 0, int(at.Len()), sym)
			}
			i = int(in.concretize(sym, "index").Int())
		}
		if isAgg(at.Elem()) {
			return Agg(append([]Value(nil), xv[i*stride:(i+1)*stride]...))
		}
		return xv[i]
	case Str:
		i, sym := in.checkIndex(fr, ins, idx, signed, len(xv.S))
		if sym != nil {
			o := &Object{Cells: in.strCells(xv)}
			return in.selectCell(o, 0, len(xv.S), sym)
		}
		return in.strByte(xv, i)
	}
	fail("Index on %T", x)
	return nil
}

func (in *Interp) strByte(s Str, i int) *smt.Term {
	if s.Sym != nil {
		return s.Sym[i]
	}
	return in.C.Const(8, uint64(s.S[i]))
}

func (in *Interp) strCells(s Str) []Value {
	out := make([]Value, len(s.S))
	for i := range out {
		out[i] = in.strByte(s, i)
	}
	return out
}

func (in *Interp) sliceOp(fr *frame, ins *ssa.Slice) Value {
	x := in.get(fr, ins.X)
	getI := func(v ssa.Value, def int) int {
		if v == nil {
			return def
		}
		return in.concInt(in.get(fr, v), "slice bound at "+in.posOf(ins, fr))
	}
	// a symbolic bound is first split into "outside [0, cap]" (a run-time panic, decided by the solver)
	// and "inside", and only the inside values are enumerated
	getB := func(v ssa.Value, def, cp int) int {
		if v == nil {
			return def
		}
		val := in.get(fr, v)
		if t, ok := val.(*smt.Term); ok && !t.IsConst() {
			if in.branch(in.C.Ult(in.C.Const(t.W, uint64(cp)), t), "slice bound above capacity") {
				in.goPanicf("slice bounds out of range (bound outside [0, %d]) at %s", cp, in.posOf(ins, fr))
			}
		}
		return in.concInt(val, "slice bound at "+in.posOf(ins, fr))
	}
	switch xv := x.(type) {
	case Slice:
		lo := getB(ins.Low, 0, xv.Cap)
		hi := getB(ins.High, xv.Len, xv.Cap)
		mx := getB(ins.Max, xv.Cap, xv.Cap)
		if lo < 0 || hi < lo || mx < hi || mx > xv.Cap {
			in.goPanicf("slice bounds out of range [%d:%d:%d] with capacity %d at %s", lo, hi, mx, xv.Cap, in.posOf(ins, fr))
		}
		if xv.Obj == nil {
			return Slice{}
		}
		return Slice{Obj: xv.Obj, Off: xv.Off + lo*xv.Stride, Len: hi - lo, Cap: mx - lo, Stride: xv.Stride}
	case Pointer: // *array
		if xv.Obj == nil {
			in.goPanicf("nil pointer dereference (slice of array) at %s", in.posOf(ins, fr))
		}
		xv = in.concretePtr(xv)
		at := ins.X.Type().Underlying().(*types.Pointer).Elem().Underlying().(*types.Array)
		n := int(at.Len())
		stride := in.layoutOf(at.Elem()).cells
		lo := getI(ins.Low, 0)
		hi := getI(ins.High, n)
		mx := getI(ins.Max, n)
		if lo < 0 || hi < lo || mx < hi || mx > n {
			in.goPanicf("slice bounds out of range [%d:%d:%d] with array length %d at %s", lo, hi, mx, n, in.posOf(ins, fr))
		}
		return Slice{Obj: xv.Obj, Off: xv.Off + lo*stride, Len: hi - lo, Cap: mx - lo, Stride: stride}
	case Str:
		lo := getI(ins.Low, 0)
		hi := getI(ins.High, len(xv.S))
		if lo < 0 || hi < lo || hi > len(xv.S) {
			in.goPanicf("string slice bounds out of range [%d:%d] with length %d at %s", lo, hi, len(xv.S), in.posOf(ins, fr))
		}
		r := Str{S: xv.S[lo:hi]}
		if xv.Sym != nil {
			r.Sym = xv.Sym[lo:hi]
		}
		return r
	}
	fail("Slice on %T", x)
	return nil
}

func (in *Interp) unop(fr *frame, ins *ssa.UnOp) Value {
	x := in.get(fr, ins.X)
	switch ins.Op {
	case token.MUL:
		return in.loadPtr(fr, ins, x.(Pointer), ins.Type())
	case token.SUB:
		if f, ok := x.(floatVal); ok {
			return -f
		}
		return in.C.Neg(in.term(x))
	case token.NOT:
		return in.C.Not(in.term(x))
	case token.XOR:
		return in.C.BvNot(in.term(x))
	case token.ARROW:
		fail("channel receive not supported")
	}
	fail("unop %v", ins.Op)
	return nil
}

func (in *Interp) binop(fr *frame, ins ssa.Instruction, op token.Token, x, y Value, xt, yt types.Type) Value {
	c := in.C
	switch xv := x.(type) {
	case *smt.Term:
		yv := in.term(y)
		if xv.W == 0 { // bool
			switch op {
			case token.EQL:
				return c.Eq(xv, yv)
			case token.NEQ:
				return c.Ne(xv, yv)
			case token.AND, token.LAND:
				return c.And(xv, yv)
			case token.OR, token.LOR:
				return c.Or(xv, yv)
			}
			fail("bool binop %v", op)
		}
		signed := isSigned(xt)
		switch op {
		case token.ADD:
			return c.Add(xv, yv)
		case token.SUB:
			return c.Sub(xv, yv)
		case token.MUL:
			return c.Mul(xv, yv)
		case token.QUO, token.REM:
			if yv.IsConst() {
				if yv.Uint() == 0 {
					in.goPanicf("integer divide by zero at %s", in.posOf(ins, fr))
				}
			} else if !in.branch(c.Ne(yv, c.Const(yv.W, 0)), "div0@"+in.posOf(ins, fr)) {
				in.goPanicf("integer divide by zero at %s", in.posOf(ins, fr))
			}
			if op == token.QUO {
				if signed {
					return c.SDiv(xv, yv)
				}
				return c.UDiv(xv, yv)
			}
			if signed {
				if nonNegTerm(xv) && nonNegTerm(yv) {
					return c.URem(xv, yv)
				}
				return c.SRem(xv, yv)
			}
			return c.URem(xv, yv)
		case token.AND:
			return c.BvAnd(xv, yv)
		case token.OR:
			return c.BvOr(xv, yv)
		case token.XOR:
			return c.BvXor(xv, yv)
		case token.AND_NOT:
			return c.BvAnd(xv, c.BvNot(yv))
		case token.SHL, token.SHR:
			// shift count: yv may have different width and be signed
			if isSigned(yt) {
				if yv.IsConst() {
					if yv.Int() < 0 {
						in.goPanicf("negative shift amount at %s", in.posOf(ins, fr))
					}
				} else if !in.branch(c.Sle(c.Const(yv.W, 0), yv), "negshift@"+in.posOf(ins, fr)) {
					in.goPanicf("negative shift amount at %s", in.posOf(ins, fr))
				}
			}
			var amt *smt.Term
			if yv.W > xv.W {
				// saturate: if y >= W then W else trunc(y)
				big := c.Ule(c.Const(yv.W, uint64(xv.W)), yv)
				amt = c.Ite(big, c.Const(xv.W, uint64(xv.W)), c.Extract(yv, xv.W-1, 0))
			} else {
				amt = c.ZExt(yv, xv.W)
			}
			if op == token.SHL {
				return c.Shl(xv, amt)
			}
			if signed {
				return c.AShr(xv, amt)
			}
			return c.LShr(xv, amt)
		case token.EQL:
			return c.Eq(xv, yv)
		case token.NEQ:
			return c.Ne(xv, yv)
		case token.LSS:
			if signed {
				return c.Slt(xv, yv)
			}
			return c.Ult(xv, yv)
		case token.LEQ:
			if signed {
				return c.Sle(xv, yv)
			}
			return c.Ule(xv, yv)
		case token.GTR:
			if signed {
				return c.Slt(yv, xv)
			}
			return c.Ult(yv, xv)
		case token.GEQ:
			if signed {
				return c.Sle(yv, xv)
			}
			return c.Ule(yv, xv)
		}
		fail("int binop %v", op)
	case Str:
		ys := y.(Str)
		switch op {
		case token.ADD:
			r := Str{S: xv.S + ys.S}
			if xv.Sym != nil || ys.Sym != nil {
				for _, v := range in.strCells(xv) {
					r.Sym = append(r.Sym, v.(*smt.Term))
				}
				for _, v := range in.strCells(ys) {
					r.Sym = append(r.Sym, v.(*smt.Term))
				}
			}
			return r
		case token.EQL, token.NEQ:
			e := in.strEq(xv, ys)
			if op == token.NEQ {
				return c.Not(e)
			}
			return e
		case token.LSS, token.GTR, token.LEQ, token.GEQ:
			if xv.Sym == nil && ys.Sym == nil {
				switch op {
				case token.LSS:
					return c.Bool(xv.S < ys.S)
				case token.GTR:
					return c.Bool(xv.S > ys.S)
				case token.LEQ:
					return c.Bool(xv.S <= ys.S)
				case token.GEQ:
					return c.Bool(xv.S >= ys.S)
				}
			}
		}
		fail("string binop %v", op)
	case floatVal:
		yf := y.(floatVal)
		switch op {
		case token.ADD:
			return xv + yf
		case token.SUB:
			return xv - yf
		case token.MUL:
			return xv * yf
		case token.QUO:
			return xv / yf
		case token.LSS:
			return c.Bool(xv < yf)
		case token.GTR:
			return c.Bool(xv > yf)
		case token.LEQ:
			return c.Bool(xv <= yf)
		case token.GEQ:
			return c.Bool(xv >= yf)
		case token.EQL:
			return c.Bool(xv == yf)
		case token.NEQ:
			return c.Bool(xv != yf)
		}
	}
	// equality on other kinds
	if op == token.EQL || op == token.NEQ {
		e := in.valueEq(x, y)
		if op == token.NEQ {
			return c.Not(e)
		}
		return e
	}
	fail("binop %v on %T", op, x)
	return nil
}

func nonNegTerm(t *smt.Term) bool {
	if t.IsConst() {
		return t.Int() >= 0
	}
	return t.Op == smt.OpConcat && t.Args[0].IsConst() && t.Args[0].Val>>(uint(t.Args[0].W)-1) == 0
}

func (in *Interp) strEq(a, b Str) *smt.Term {
	if len(a.S) != len(b.S) {
		return in.C.False
	}
	if a.Sym == nil && b.Sym == nil {
		return in.C.Bool(a.S == b.S)
	}
	conj := make([]*smt.Term, 0, len(a.S))
	for i := range a.S {
		conj = append(conj, in.C.Eq(in.strByte(a, i), in.strByte(b, i)))
	}
	return in.C.And(conj...)
}

func (in *Interp) valueEq(x, y Value) *smt.Term {
	c := in.C
	switch xv := x.(type) {
	case *smt.Term:
		return c.Eq(xv, in.term(y))
	case Str:
		return in.strEq(xv, y.(Str))
	case Pointer:
		yv, ok := y.(Pointer)
		if !ok {
			fail("pointer compared with %T", y)
		}
		if xv.Sym != nil || yv.Sym != nil {
			xv, yv = in.concretePtr(xv), in.concretePtr(yv)
		}
		return c.Bool(xv.Obj == yv.Obj && (xv.Obj == nil || xv.Off == yv.Off))
	case Slice:
		yv := y.(Slice)
		if xv.Obj != nil && yv.Obj != nil {
			fail("slice compared with non-nil slice")
		}
		return c.Bool(xv.Obj == nil && yv.Obj == nil)
	case Iface:
		yv := y.(Iface)
		if xv.T == nil || yv.T == nil {
			return c.Bool(xv.T == nil && yv.T == nil)
		}
		if !types.Identical(xv.T, yv.T) {
			return c.False
		}
		return in.valueEq(xv.V, yv.V)
	case *Closure:
		yv := y.(*Closure)
		if xv != nil && yv != nil {
			fail("func compared with non-nil func")
		}
		return c.Bool(xv == nil && yv == nil)
	case *MapV:
		yv := y.(*MapV)
		return c.Bool(xv == nil && yv == nil)
	case Agg:
		yv := y.(Agg)
		conj := []*smt.Term{}
		for i := range xv {
			conj = append(conj, in.valueEq(xv[i], yv[i]))
		}
		return c.And(conj...)
	case floatVal:
		return c.Bool(xv == y.(floatVal))
	}
	fail("equality on %T", x)
	return nil
}

func (in *Interp) convert(fr *frame, ins ssa.Instruction, x Value, from, to types.Type) Value {
	c := in.C
	fu, tu := from.Underlying(), to.Underlying()
	if tp, ok := tu.(*types.TypeParam); ok {
		_ = tp
		fail("convert to type param")
	}
	switch tb := tu.(type) {
	case *types.Basic:
		if w, _, ok := intWidth(tb); ok {
			switch xv := x.(type) {
			case *smt.Term:
				return c.Resize(xv, w, isSigned(from))
			case floatVal:
				return c.Const(w, uint64(int64(xv)))
			case Pointer: // unsafe.Pointer -> uintptr
				fail("pointer to integer conversion at %s", in.posOf(ins, fr))
			}
		}
		switch tb.Kind() {
		case types.String:
			switch xv := x.(type) {
			case Str:
				return xv
			case Slice: // []byte -> string
				r := Str{}
				bs := make([]byte, xv.Len)
				syms := make([]*smt.Term, xv.Len)
				anySym := false
				for i := 0; i < xv.Len; i++ {
					t := in.term(xv.Obj.Cells[xv.Off+i*xv.Stride])
					syms[i] = t
					if t.IsConst() {
						bs[i] = byte(t.Uint())
					} else {
						anySym = true
						bs[i] = '?'
					}
				}
				r.S = string(bs)
				if anySym {
					r.Sym = syms
				}
				return r
			case *smt.Term: // rune/int -> string
				if xv.IsConst() {
					return Str{S: string(rune(xv.Int()))}
				}
			}
		case types.Float64, types.Float32:
			switch xv := x.(type) {
			case floatVal:
				return xv
			case *smt.Term:
				if xv.IsConst() {
					if isSigned(from) {
						return floatVal(xv.Int())
					}
					return floatVal(xv.Uint())
				}
				fail("symbolic int to float at %s", in.posOf(ins, fr))
			}
		case types.UnsafePointer:
			if p, ok := x.(Pointer); ok {
				return p
			}
		case types.Bool:
			return x
		}
	case *types.Slice:
		if s, ok := x.(Str); ok { // string -> []byte / []rune
			if eb, ok := tb.Elem().Underlying().(*types.Basic); ok && eb.Kind() == types.Uint8 {
				cells := in.strCells(s)
				o := in.newObject(cells, "string->bytes")
				return Slice{Obj: o, Len: len(cells), Cap: len(cells), Stride: 1}
			}
		}
		if s, ok := x.(Slice); ok {
			return s
		}
	case *types.Pointer:
		if p, ok := x.(Pointer); ok {
			_ = fu
			return p
		}
	}
	fail("unsupported conversion %v -> %v at %s", from, to, in.posOf(ins, fr))
	return nil
}

func (in *Interp) typeAssert(fr *frame, ins *ssa.TypeAssert) Value {
	x := in.get(fr, ins.X).(Iface)
	at := ins.AssertedType
	ok := false
	var res Value
	if x.T != nil {
		if types.IsInterface(at) {
			iface := at.Underlying().(*types.Interface)
			ok = types.Implements(x.T, iface) || in.implementsBySet(x.T, iface)
			res = x
		} else {
			ok = types.Identical(x.T, at)
			res = x.V
		}
	}
	if ins.CommaOk {
		if !ok {
			res = in.zeroValue(at)
		}
		return Tuple{res, in.C.Bool(ok)}
	}
	if !ok {
		ts := "nil"
		if x.T != nil {
			ts = x.T.String()
		}
		in.goPanicf("interface conversion: %s is not %s at %s", ts, at, in.posOf(ins, fr))
	}
	return res
}

func (in *Interp) implementsBySet(t types.Type, iface *types.Interface) bool {
	ms := in.P.Prog.MethodSets.MethodSet(t)
	for i := 0; i < iface.NumMethods(); i++ {
		m := iface.Method(i)
		if ms.Lookup(m.Pkg(), m.Name()) == nil {
			return false
		}
	}
	return true
}

func (in *Interp) mapKey(k Value) string {
	switch kv := k.(type) {
	case *smt.Term:
		if !kv.IsConst() {
			kv = in.concretize(kv, "map key")
		}
		return fmt.Sprintf("i%d", kv.Uint())
	case Str:
		if kv.Sym != nil {
			// concretise each byte
			bs := []byte(kv.S)
			for i, t := range kv.Sym {
				if !t.IsConst() {
					t = in.concretize(t, "map key byte")
				}
				bs[i] = byte(t.Uint())
			}
			return "s" + string(bs)
		}
		return "s" + kv.S
	case Agg:
		parts := make([]string, len(kv))
		for i, v := range kv {
			parts[i] = in.mapKey(v)
		}
		return "a(" + strings.Join(parts, ",") + ")"
	case Iface:
		if kv.T == nil {
			return "nil"
		}
		return "I" + kv.T.String() + ":" + in.mapKey(kv.V)
	case Pointer:
		if kv.Obj == nil {
			return "p0"
		}
		return fmt.Sprintf("p%d+%d", kv.Obj.ID, kv.Off)
	}
	fail("unsupported map key %T", k)
	return ""
}

func (in *Interp) lookup(fr *frame, ins *ssa.Lookup) Value {
	x := in.get(fr, ins.X)
	if s, ok := x.(Str); ok {
		idx := in.term(in.get(fr, ins.Index))
		i, sym := in.checkIndex(fr, ins, idx, isSigned(ins.Index.Type()), len(s.S))
		if sym != nil {
			o := &Object{Cells: in.strCells(s)}
			return in.selectCell(o, 0, len(s.S), sym)
		}
		return in.strByte(s, i)
	}
	m := x.(*MapV)
	vt := ins.X.Type().Underlying().(*types.Map).Elem()
	var v Value
	found := false
	if m != nil {
		v, found = m.Vals[in.mapKey(in.get(fr, ins.Index))]
	}
	if !found {
		v = in.zeroValue(vt)
	}
	if ins.CommaOk {
		return Tuple{v, in.C.Bool(found)}
	}
	return v
}

type rangeIter struct {
	m   *MapV
	s   Str
	i   int
	str bool
}

func (in *Interp) rangeInit(fr *frame, ins *ssa.Range) Value {
	x := in.get(fr, ins.X)
	switch xv := x.(type) {
	case *MapV:
		return &rangeIter{m: xv}
	case Str:
		if xv.Sym != nil {
			fail("range over symbolic string")
		}
		return &rangeIter{s: xv, str: true}
	}
	fail("range over %T", x)
	return nil
}

func (in *Interp) rangeNext(fr *frame, ins *ssa.Next) Value {
	it := in.get(fr, ins.Iter).(*rangeIter)
	c := in.C
	if it.str {
		if it.i >= len(it.s.S) {
			return Tuple{c.False, c.Const(64, 0), c.Const(32, 0)}
		}
		// decode rune
		rest := it.s.S[it.i:]
		var r rune
		var size int
		for j, rr := range rest {
			if j == 0 {
				r = rr
				size = len(string(rr))
				if rr == 0xFFFD {
					size = 1
				}
			}
			break
		}
		idx := it.i
		it.i += size
		return Tuple{c.True, c.Const(64, uint64(idx)), c.Const(32, uint64(r))}
	}
	if it.m == nil || it.i >= len(it.m.Keys) {
		mt := ins.Iter.(*ssa.Range).X.Type().Underlying().(*types.Map)
		return Tuple{c.False, in.zeroValue(mt.Key()), in.zeroValue(mt.Elem())}
	}
	k := it.m.Keys[it.i]
	v := it.m.Vals[it.m.KeyS[it.i]]
	it.i++
	return Tuple{c.True, k, v}
}

// CallHarness runs a zero-argument harness function on the current path.
func (in *Interp) CallHarness(fn *ssa.Function) {
	in.callFunction(fn, nil, nil)
}

// FuncsSeen lists the functions whose SSA bodies were executed.
func (in *Interp) FuncsSeen() []string {
	var out []string
	for f := range in.fnsSeen {
		out = append(out, f.String())
	}
	return out
}
