// Package driver: case scheduling, known findings, replay, evidence.
package driver

import (
	"encoding/json"
	"fmt"
	"os"
	"os/exec"
	"path/filepath"
	"regexp"
	"sort"
	"strconv"
	"strings"
	"sync"
	"time"

	"gosym/smt"
	"gosym/sym"
)

const Module = "github.com/emmansun/gmsm"

var VerifRoot = envOr("VERIF_ROOT", "/verif")
var RepoRoot = envOr("VERIF_REPO", "/repo")

func envOr(k, d string) string {
	if v := os.Getenv(k); v != "" {
		return v
	}
	return d
}

// Case is one harness invocation with concrete parameters; everything else is symbolic.
type Case struct {
	Harness   string
	Pkg       string // package directory relative to the repo root, e.g. "padding"
	Config    string // "purego" or "asm"
	Params    map[string]int
	Overrides map[string]string // full function name -> model function (same package)
	MaxUnwind int
	MaxPaths  int
	MaxSteps  int64
	TimeoutS  int
	Expect    string // "" normal; "reach" = vacuity twin (must reach tags)
	Group     string // evidence grouping
	MustReach []string // reachability witnesses besides "end"
	Solver    string   // primary solver for this case ("" = the runner's): z3-new | z3 | cvc5
	Portfolio bool     // queries the primary solver leaves undecided go to z3 4.8.12 and then cvc5
	SoftBranch bool    // undecided branch-feasibility queries (budget SoftMs) keep the branch instead of failing the case
	SoftMs    int
	QueryMs   int      // per-query budget of the primary solver for this case (0: the runner's)
}

func (c Case) Key() string {
	ks := make([]string, 0, len(c.Params))
	for k := range c.Params {
		ks = append(ks, k)
	}
	sort.Strings(ks)
	parts := []string{c.Config, c.Pkg, c.Harness}
	for _, k := range ks {
		parts = append(parts, fmt.Sprintf("%s=%d", k, c.Params[k]))
	}
	return strings.Join(parts, " ")
}

// Check describes how one property is decided.
type Check struct {
	ID          string
	Cases       func(tier string) []Case
	Functions   []string // functions encoded (documentation; the measured list is added)
	Assumptions []string
	Bounds      map[string]string // tier -> description
	Outside     []string
	Stubs       []string
	Oracle      string
}

type CaseResult struct {
	Case        Case
	Status      sym.Status
	Msg         string
	Paths       int
	Obligations int
	Discharged  int
	Trivial     int
	Steps       int64
	Violations  []*sym.Violation
	Reached     []string
	Stats       smt.Stats
	Wall        time.Duration
	Funcs       []string
	Sample      []string
	Terms       int
	SweepProved, SweepCandidates int
}

type KnownFinding struct {
	Property string         `json:"property"`
	ID       string         `json:"id"`
	Status   string         `json:"status"` // known | fixed
	Harness  string         `json:"harness"`
	When     map[string]string `json:"when"` // param -> condition e.g. "!=16", "in:1,2,3", "*"
	MsgRe    string         `json:"msg_re"`
	What     string         `json:"what"`
	Commit   string         `json:"commit,omitempty"`
}

func LoadKnown() ([]KnownFinding, error) {
	b, err := os.ReadFile(filepath.Join(VerifRoot, "known_findings.json"))
	if err != nil {
		if os.IsNotExist(err) {
			return nil, nil
		}
		return nil, err
	}
	var kf struct {
		Findings []KnownFinding `json:"findings"`
	}
	if err := json.Unmarshal(b, &kf); err != nil {
		return nil, err
	}
	return kf.Findings, nil
}

func condHolds(cond string, v int) bool {
	switch {
	case cond == "*":
		return true
	case strings.HasPrefix(cond, "!="):
		n, _ := strconv.Atoi(cond[2:])
		return v != n
	case strings.HasPrefix(cond, "=="):
		n, _ := strconv.Atoi(cond[2:])
		return v == n
	case strings.HasPrefix(cond, ">="):
		n, _ := strconv.Atoi(cond[2:])
		return v >= n
	case strings.HasPrefix(cond, "<="):
		n, _ := strconv.Atoi(cond[2:])
		return v <= n
	case strings.HasPrefix(cond, "range:"):
		var lo, hi int
		if _, err := fmt.Sscanf(cond[6:], "%d-%d", &lo, &hi); err != nil {
			return false
		}
		return v >= lo && v <= hi
	case strings.HasPrefix(cond, "in:"):
		for _, s := range strings.Split(cond[3:], ",") {
			if n, err := strconv.Atoi(s); err == nil && n == v {
				return true
			}
		}
		return false
	case strings.HasPrefix(cond, "notin:"):
		for _, s := range strings.Split(cond[6:], ",") {
			if n, err := strconv.Atoi(s); err == nil && n == v {
				return false
			}
		}
		return true
	}
	return false
}

func (k *KnownFinding) Matches(prop string, c Case, v *sym.Violation) bool {
	if k.Status != "known" || k.Property != prop || k.Harness != c.Harness {
		return false
	}
	for p, cond := range k.When {
		val, ok := c.Params[p]
		if !ok || !condHolds(cond, val) {
			return false
		}
	}
	if k.MsgRe != "" {
		re, err := regexp.Compile(k.MsgRe)
		if err != nil || !re.MatchString(v.Msg) {
			return false
		}
	}
	return true
}

// ---------- program cache ----------

type progKey struct{ config string }

type Runner struct {
	mu      sync.Mutex
	progs   map[string]*sym.Program
	WorkDir string
	Solver  string
	Cross   string
	Verbose bool
	TimeoutMs int
}

func harnessPkgs() []string {
	var out []string
	root := filepath.Join(VerifRoot, "harness")
	filepath.Walk(root, func(p string, info os.FileInfo, err error) error {
		if err == nil && !info.IsDir() && strings.HasSuffix(p, ".go") {
			d, _ := filepath.Rel(root, filepath.Dir(p))
			for _, x := range out {
				if x == d {
					return nil
				}
			}
			out = append(out, d)
		}
		return nil
	})
	sort.Strings(out)
	return out
}

var pkgNameRe = regexp.MustCompile(`(?m)^package\s+(\w+)`)
var harnessRe = regexp.MustCompile(`(?m)^func (verifH_\w+)\(\)`)

// overlayFor builds the overlay (virtual path -> content) for the harness packages.
// Files named *_asm.go apply only to config "asm", *_purego.go only to "purego".
func overlayFor(config string, pkgs []string, withReplay bool) (map[string][]byte, error) {
	ov := map[string][]byte{}
	root := filepath.Join(VerifRoot, "harness")
	for _, d := range pkgs {
		files, _ := filepath.Glob(filepath.Join(root, d, "*.go"))
		pkgName := ""
		var harnesses []string
		for _, f := range files {
			base := filepath.Base(f)
			if strings.HasSuffix(base, "_asm.go") && config != "asm" {
				continue
			}
			if strings.HasSuffix(base, "_purego.go") && config != "purego" {
				continue
			}
			b, err := os.ReadFile(f)
			if err != nil {
				return nil, err
			}
			if m := pkgNameRe.FindSubmatch(b); m != nil {
				pkgName = string(m[1])
			}
			for _, m := range harnessRe.FindAllSubmatch(b, -1) {
				harnesses = append(harnesses, string(m[1]))
			}
			virt := strings.TrimSuffix(base, ".go")
			ov[filepath.Join(RepoRoot, d, "zz_verif_"+virt+"_x.go")] = b
		}
		if pkgName == "" {
			continue
		}
		ov[filepath.Join(RepoRoot, d, "zz_verif_intrinsics.go")] = []byte(strings.Replace(nativeIntrinsics, "PKGNAME", pkgName, 1))
		if withReplay {
			var sb strings.Builder
			for _, h := range harnesses {
				fmt.Fprintf(&sb, "\t%q: %s,\n", h, h)
			}
			src := strings.Replace(nativeReplayTest, "PKGNAME", pkgName, 1)
			src = strings.Replace(src, "HARNESSES", sb.String(), 1)
			ov[filepath.Join(RepoRoot, d, "zz_verif_replay_test.go")] = []byte(src)
		}
	}
	return ov, nil
}

func tagsFor(config string) string {
	if config == "purego" {
		return "purego"
	}
	return ""
}

func (r *Runner) program(config string, pkgs []string) (*sym.Program, error) {
	r.mu.Lock()
	defer r.mu.Unlock()
	if r.progs == nil {
		r.progs = map[string]*sym.Program{}
	}
	key := config + "|" + strings.Join(pkgs, ",")
	if p, ok := r.progs[key]; ok {
		return p, nil
	}
	ov, err := overlayFor(config, pkgs, false)
	if err != nil {
		return nil, err
	}
	var pats []string
	for _, d := range pkgs {
		pats = append(pats, "./"+d)
	}
	t0 := time.Now()
	p, err := sym.Load(RepoRoot, tagsFor(config), ov, pats...)
	if err != nil {
		return nil, err
	}
	if r.Verbose {
		fmt.Fprintf(os.Stderr, "loaded %s %v in %v\n", config, pkgs, time.Since(t0))
	}
	r.progs[key] = p
	return p, nil
}

// RunCase executes one case on a dedicated solver.
func (r *Runner) RunCase(p *sym.Program, c Case, solver, cross *smt.Solver, alt ...*smt.Solver) (res CaseResult) {
	t0 := time.Now()
	res.Case = c
	ctx := smt.NewCtx()
	solver.Reset()
	if cross != nil {
		cross.Reset()
	}
	solver.Stats = &smt.Stats{}
	x := &sym.Explorer{C: ctx, S: solver, S2: cross, Params: c.Params,
		MaxSteps: 50_000_000, MaxUnwind: 100000, MaxAlloc: 1 << 22, MaxPaths: 200000,
		Reached: map[string]bool{}, Vars: map[string]*smt.Term{}, CrossEvery: 50}
	for _, a := range alt {
		if a != nil {
			a.Reset()
			x.Alt = append(x.Alt, a)
		}
	}
	x.SoftBranch, x.SoftMs = c.SoftBranch, c.SoftMs
	if c.QueryMs > 0 {
		old := solver.TimeoutMs
		solver.SetTimeout(c.QueryMs)
		defer solver.SetTimeout(old)
	}
	if c.MaxUnwind > 0 {
		x.MaxUnwind = c.MaxUnwind
	}
	if c.MaxPaths > 0 {
		x.MaxPaths = c.MaxPaths
	}
	if c.MaxSteps > 0 {
		x.MaxSteps = c.MaxSteps
	}
	to := 600
	if c.TimeoutS > 0 {
		to = c.TimeoutS
	}
	x.Deadline = time.Now().Add(time.Duration(to) * time.Second)
	in := sym.NewInterp(p, x)
	x.In = in
	pkg := p.Pkgs[Module+"/"+c.Pkg]
	if c.Pkg == "." || c.Pkg == "" {
		pkg = p.Pkgs[Module]
	}
	if pkg == nil {
		res.Status, res.Msg = sym.StatusError, "package not loaded: "+c.Pkg
		return
	}
	fn := pkg.Func(c.Harness)
	if fn == nil {
		res.Status, res.Msg = sym.StatusError, "harness not found: "+c.Harness
		return
	}
	// per-case overrides are applied through a shallow program copy
	prog := p
	if len(c.Overrides) > 0 {
		cp := *p
		cp.Overrides = c.Overrides
		prog = &cp
		in.P = prog
	}
	func() {
		defer func() {
			if rec := recover(); rec != nil {
				res.Status, res.Msg = sym.StatusError, fmt.Sprintf("engine panic: %v", rec)
			}
		}()
		x.Run(func() { in.CallHarness(fn) })
		res.Status, res.Msg = x.Status, x.StatusMsg
	}()
	res.Paths, res.Obligations, res.Discharged, res.Trivial = x.Paths, x.Obligations, x.Discharged, x.Trivial
	res.Steps = in.Steps
	res.Violations = x.Violations
	for _, v := range res.Violations {
		v.Harness = c.Harness
	}
	for t := range x.Reached {
		res.Reached = append(res.Reached, t)
	}
	sort.Strings(res.Reached)
	res.Stats = *solver.Stats
	if cross != nil {
		res.Stats.Add(cross.Stats)
		cross.Stats = &smt.Stats{}
	}
	res.Wall = time.Since(t0)
	res.Funcs = in.FuncsSeen()
	res.Sample = x.SamplePaths
	res.Terms = ctx.NumTerms()
	res.SweepProved, res.SweepCandidates = x.SweepProved, x.SweepCandidates
	return
}

// ---------- replay ----------

type ReplayFile struct {
	Property string            `json:"property"`
	Harness  string            `json:"harness"`
	Pkg      string            `json:"pkg"`
	Config   string            `json:"config"`
	Params   map[string]int    `json:"params"`
	Model    map[string]string `json:"model"`
	Kind     string            `json:"kind"`
	Msg      string            `json:"msg"`
}

// Replay runs the harness natively (go test -overlay) with the model; returns outcome line.
func Replay(rf *ReplayFile, path string, tries int, workDir string) (string, string, error) {
	pkgs := harnessPkgs()
	ov, err := overlayFor(rf.Config, pkgs, true)
	if err != nil {
		return "", "", err
	}
	os.MkdirAll(workDir, 0o755)
	repl := map[string]string{}
	i := 0
	for virt, content := range ov {
		real := filepath.Join(workDir, fmt.Sprintf("ov%d_%s", i, filepath.Base(virt)))
		i++
		if err := os.WriteFile(real, content, 0o644); err != nil {
			return "", "", err
		}
		repl[virt] = real
	}
	ovj, _ := json.Marshal(map[string]interface{}{"Replace": repl})
	ovPath := filepath.Join(workDir, "overlay.json")
	os.WriteFile(ovPath, ovj, 0o644)
	args := []string{"test", "-vet=off", "-count=1", "-v", "-overlay", ovPath, "-run", "^TestVerifReplay$", "-timeout", "300s"}
	if t := tagsFor(rf.Config); t != "" {
		args = append(args, "-tags", t)
	}
	args = append(args, "./"+rf.Pkg)
	cmd := exec.Command("go", args...)
	cmd.Dir = RepoRoot
	abs, _ := filepath.Abs(path)
	cmd.Env = append(os.Environ(), "GOFLAGS=-mod=mod", "GOPROXY=off", "GOSUMDB=off", "GOTOOLCHAIN=local",
		"VERIF_REPLAY="+abs, fmt.Sprintf("VERIF_REPLAY_TRIES=%d", tries), "VERIF_REPLAY_SEED=1000")
	out, err := cmd.CombinedOutput()
	outcome := ""
	for _, l := range strings.Split(string(out), "\n") {
		if strings.HasPrefix(l, "VERIF-REPLAY:") {
			outcome = strings.TrimSpace(strings.TrimPrefix(l, "VERIF-REPLAY:"))
		}
	}
	if outcome == "" {
		return "", string(out), fmt.Errorf("replay produced no outcome (%v)", err)
	}
	return outcome, string(out), nil
}

func replayConfirms(outcome string) bool {
	// outcome like "try=0 FAILED msg" / "try=3 PANIC ..."
	f := strings.Fields(outcome)
	return len(f) >= 2 && (f[1] == "FAILED" || f[1] == "PANIC")
}

// SelfTest runs the given cases natively (random inputs) in one go test invocation per (config, package).
// Returns number of native runs, and mismatch descriptions.
func SelfTest(prop string, cases []Case, tries int, workDir string) (int, []string) {
	type key struct{ cfg, pkg string }
	groups := map[key][]Case{}
	for _, c := range cases {
		k := key{c.Config, c.Pkg}
		groups[k] = append(groups[k], c)
	}
	pkgs := harnessPkgs()
	var mu sync.Mutex
	var wg sync.WaitGroup
	runs := 0
	var bad []string
	gi := 0
	for k, cs := range groups {
		gi++
		wg.Add(1)
		go func(k key, cs []Case, gi int) {
			defer wg.Done()
			dir := filepath.Join(workDir, fmt.Sprintf("self%d", gi))
			os.MkdirAll(dir, 0o755)
			ov, err := overlayFor(k.cfg, pkgs, true)
			if err != nil {
				mu.Lock()
				bad = append(bad, "selftest overlay: "+err.Error())
				mu.Unlock()
				return
			}
			repl := map[string]string{}
			i := 0
			for virt, content := range ov {
				real := filepath.Join(dir, fmt.Sprintf("ov%d_%s", i, filepath.Base(virt)))
				i++
				os.WriteFile(real, content, 0o644)
				repl[virt] = real
			}
			ovj, _ := json.Marshal(map[string]interface{}{"Replace": repl})
			ovPath := filepath.Join(dir, "overlay.json")
			os.WriteFile(ovPath, ovj, 0o644)
			var list []string
			names := map[string]string{}
			for j, c := range cs {
				rf := &ReplayFile{Property: prop, Harness: c.Harness, Pkg: c.Pkg, Config: c.Config, Params: c.Params, Model: map[string]string{}}
				b, _ := json.Marshal(rf)
				fp := filepath.Join(dir, fmt.Sprintf("case%d.json", j))
				os.WriteFile(fp, b, 0o644)
				list = append(list, fp)
				names[fp] = c.Key()
			}
			listPath := filepath.Join(dir, "list.txt")
			os.WriteFile(listPath, []byte(strings.Join(list, "\n")+"\n"), 0o644)
			args := []string{"test", "-vet=off", "-count=1", "-v", "-overlay", ovPath, "-run", "^TestVerifSelf$", "-timeout", "600s"}
			if t := tagsFor(k.cfg); t != "" {
				args = append(args, "-tags", t)
			}
			args = append(args, "./"+k.pkg)
			cmd := exec.Command("go", args...)
			cmd.Dir = RepoRoot
			cmd.Env = append(os.Environ(), "GOFLAGS=-mod=mod", "GOPROXY=off", "GOSUMDB=off", "GOTOOLCHAIN=local",
				"VERIF_REPLAY_LIST="+listPath, fmt.Sprintf("VERIF_REPLAY_TRIES=%d", tries))
			out, err := cmd.CombinedOutput()
			n := 0
			var localBad []string
			for _, l := range strings.Split(string(out), "\n") {
				if !strings.HasPrefix(l, "VERIF-SELF:") {
					continue
				}
				f := strings.Fields(l)
				if len(f) >= 4 && strings.HasPrefix(f[1], "file=") {
					n++
					if f[3] == "FAILED" || f[3] == "PANIC" {
						localBad = append(localBad, fmt.Sprintf("native run of %s on random inputs: %s", names[strings.TrimPrefix(f[1], "file=")], strings.Join(f[3:], " ")))
					}
				} else {
					localBad = append(localBad, "selftest: "+l)
				}
			}
			if n == 0 {
				localBad = append(localBad, fmt.Sprintf("selftest of %s/%s produced no runs (%v): %s", k.cfg, k.pkg, err, tail(string(out), 15)))
			}
			mu.Lock()
			runs += n
			bad = append(bad, localBad...)
			mu.Unlock()
		}(k, cs, gi)
	}
	wg.Wait()
	return runs, bad
}
