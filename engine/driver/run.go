package driver

import (
	"encoding/json"
	"fmt"
	"os"
	"path/filepath"
	"regexp"
	"sort"
	"strings"
	"sync"
	"time"

	"gosym/smt"
	"gosym/sym"
)

type Evidence struct {
	PropertyID  string                 `json:"property_id"`
	Tier        string                 `json:"tier"`
	Seed        int                    `json:"seed"`
	Level       string                 `json:"level"`
	Coverage    map[string]interface{} `json:"coverage"`
	Assumptions []string               `json:"assumptions"`
	WallS       float64                `json:"wall_s"`
	Violations  int                    `json:"violations"`
}

// RunCheck runs all cases of a check; returns the process exit code.
func (r *Runner) RunCheck(ck *Check, tier string, seed int, filter string) int {
	t0 := time.Now()
	cases := ck.Cases(tier)
	if filter != "" {
		var fc []Case
		for _, c := range cases {
			if strings.Contains(c.Key(), filter) {
				fc = append(fc, c)
			}
		}
		cases = fc
	}
	if len(cases) == 0 {
		fmt.Println("no cases")
		return 2
	}
	known, err := LoadKnown()
	if err != nil {
		fmt.Println("cannot read known_findings.json:", err)
		return 2
	}
	// load programs per config
	pkgs := harnessPkgs()
	configs := map[string]bool{}
	for _, c := range cases {
		configs[c.Config] = true
	}
	progs := map[string]*sym.Program{}
	for cfg := range configs {
		p, err := r.program(cfg, pkgs)
		if err != nil {
			fmt.Printf("ERROR loading %s: %v\n", cfg, err)
			return 2
		}
		progs[cfg] = p
	}
	loadWall := time.Since(t0)
	// deterministic order, seed-rotated
	sort.SliceStable(cases, func(i, j int) bool { return cases[i].Key() < cases[j].Key() })
	if seed != 0 && len(cases) > 1 {
		k := seed % len(cases)
		if k < 0 {
			k = -k
		}
		cases = append(cases[k:], cases[:k]...)
	}
	nw := 16
	if v := os.Getenv("VERIF_WORKERS"); v != "" {
		fmt.Sscanf(v, "%d", &nw)
	}
	if nw > len(cases) {
		nw = len(cases)
	}
	results := make([]CaseResult, len(cases))
	var wg sync.WaitGroup
	next := 0
	var mu sync.Mutex
	for w := 0; w < nw; w++ {
		wg.Add(1)
		go func() {
			defer wg.Done()
			solver, err := smt.StartSolver(r.Solver, r.TimeoutMs)
			if err != nil {
				fmt.Println("cannot start solver:", err)
				return
			}
			defer solver.Close()
			if lp := os.Getenv("VERIF_SMTLOG"); lp != "" {
				if f, err := os.Create(lp); err == nil {
					solver.Log = f
					defer f.Close()
				}
			}
			var cross *smt.Solver
			if r.Cross != "" {
				cross, _ = smt.StartSolver(r.Cross, r.TimeoutMs)
				if cross != nil {
					defer cross.Close()
				}
			}
			var altSolver *smt.Solver
			extra := map[string]*smt.Solver{}
			defer func() {
				if altSolver != nil {
					altSolver.Close()
				}
				for _, e := range extra {
					if e != nil {
						e.Close()
					}
				}
			}()
			for {
				mu.Lock()
				i := next
				next++
				mu.Unlock()
				if i >= len(cases) {
					return
				}
				var alts []*smt.Solver
				if cases[i].Portfolio {
					if altSolver == nil {
						kind := "z3"
						if r.Solver == "z3" {
							kind = "z3-new"
						}
						altSolver, _ = smt.StartSolver(kind, r.TimeoutMs)
					}
					alts = append(alts, altSolver)
				}
				prim, crs := solver, cross
				if k := cases[i].Solver; k != "" && k != r.Solver {
					if extra[k] == nil {
						extra[k], _ = smt.StartSolver(k, r.TimeoutMs)
					}
					if extra[k] != nil {
						prim = extra[k]
						if crs != nil && crs.Kind == k {
							crs = solver // the runner's primary becomes the cross-check
						}
					}
				}
				results[i] = r.RunCase(progs[cases[i].Config], cases[i], prim, crs, alts...)
				if r.Verbose {
					cr := results[i]
					fmt.Fprintf(os.Stderr, "[%s] %s: %s paths=%d obl=%d q=%d %.1fs %s\n", ck.ID, cases[i].Key(), cr.Status, cr.Paths, cr.Obligations, cr.Stats.Queries, cr.Wall.Seconds(), cr.Msg)
				}
			}
		}()
	}
	wg.Wait()

	// ---- triage ----
	workDir := filepath.Join(r.WorkDir, ck.ID)
	os.MkdirAll(workDir, 0o755)
	replayDir := filepath.Join(VerifRoot, "replays", ck.ID)
	exit := 0
	var total smt.Stats
	paths, steps, obl, disch, triv := 0, int64(0), 0, 0, 0
	sweepP, sweepC := 0, 0
	inconclusive := []string{}
	funcs := map[string]bool{}
	var samples []interface{}
	confirmedViol := 0
	knownHit := map[string]bool{}
	replays := 0
	reachMissing := []string{}
	type pend struct {
		c Case
		v *sym.Violation
	}
	var pending []pend
	for i := range results {
		cr := &results[i]
		total.Add(&cr.Stats)
		paths += cr.Paths
		steps += cr.Steps
		obl += cr.Obligations
		disch += cr.Discharged
		triv += cr.Trivial
		for _, f := range cr.Funcs {
			funcs[f] = true
		}
		sweepP += cr.SweepProved
		sweepC += cr.SweepCandidates
		if len(samples) < 6 && cr.Status == sym.StatusOK {
			samples = append(samples, map[string]interface{}{"case": cr.Case.Key(), "paths": cr.Paths, "obligations": cr.Obligations,
				"solver_queries": cr.Stats.Queries, "reached": cr.Reached, "path_samples": cr.Sample})
		}
		switch cr.Status {
		case sym.StatusOK:
		case sym.StatusViolation:
			seen := map[string]bool{}
			for _, v := range cr.Violations {
				if seen[v.Msg] {
					continue
				}
				seen[v.Msg] = true
				pending = append(pending, pend{cr.Case, v})
			}
		default:
			inconclusive = append(inconclusive, fmt.Sprintf("%s: %s (%s)", cr.Case.Key(), cr.Status, cr.Msg))
		}
		if cr.Status == sym.StatusOK || cr.Status == sym.StatusViolation {
			// vacuity: every case must reach "end" unless it declares otherwise
			if cr.Case.Expect != "noreach" {
				found := false
				for _, t := range cr.Reached {
					if t == "end" {
						found = true
					}
				}
				if !found && cr.Status == sym.StatusOK {
					reachMissing = append(reachMissing, cr.Case.Key())
				}
				for _, want := range cr.Case.MustReach {
					ok := false
					for _, t := range cr.Reached {
						if t == want {
							ok = true
						}
					}
					if !ok && cr.Status == sym.StatusOK {
						reachMissing = append(reachMissing, cr.Case.Key()+" (witness "+want+")")
					}
				}
			}
		}
	}
	// replay violations (dedupe by harness+msg+known class), cap the number of replays
	type vkey struct{ h, m string }
	doneV := map[vkey]int{}
	var violLines []string
	var knownLines []string
	for _, p := range pending {
		var kf *KnownFinding
		for i := range known {
			if known[i].Matches(ck.ID, p.c, p.v) {
				kf = &known[i]
				break
			}
		}
		k := vkey{p.c.Harness, digitsRe.ReplaceAllString(p.v.Msg, "N")}
		if kf != nil {
			k = vkey{p.c.Harness, "known:" + kf.ID}
		}
		doneV[k]++
		if doneV[k] > 1 {
			continue // one replay per distinct (harness, message / known class)
		}
		rf := &ReplayFile{Property: ck.ID, Harness: p.c.Harness, Pkg: p.c.Pkg, Config: p.c.Config, Params: p.c.Params, Model: p.v.Model, Kind: p.v.Kind, Msg: p.v.Msg}
		os.MkdirAll(replayDir, 0o755)
		name := fmt.Sprintf("%s_%d.json", p.c.Harness, len(violLines)+len(knownLines))
		rpath := filepath.Join(replayDir, name)
		b, _ := json.MarshalIndent(rf, "", " ")
		os.WriteFile(rpath, b, 0o644)
		outcome, out, err := Replay(rf, rpath, 20000, filepath.Join(workDir, "replay"))
		replays++
		if err != nil {
			inconclusive = append(inconclusive, fmt.Sprintf("%s: replay failed: %v\n%s", p.c.Key(), err, tail(out, 30)))
			continue
		}
		if !replayConfirms(outcome) {
			inconclusive = append(inconclusive, fmt.Sprintf("%s: UNCONFIRMED counterexample (%s: %s) native outcome: %s", p.c.Key(), p.v.Kind, p.v.Msg, outcome))
			fmt.Printf("UNCONFIRMED property=%s case=%q msg=%q native=%q replay=%s\n", ck.ID, p.c.Key(), p.v.Msg, outcome, rpath)
			continue
		}
		if kf != nil {
			knownHit[kf.ID] = true
			knownLines = append(knownLines, fmt.Sprintf("KNOWN-FINDING: property=%s %s [%s; case %s; native: %s]", ck.ID, kf.What, kf.ID, p.c.Key(), outcome))
			continue
		}
		confirmedViol++
		violLines = append(violLines, fmt.Sprintf("VIOLATION property=%s replay=%s", ck.ID, rpath))
		fmt.Printf("  violated: %s: %s: %s [native: %s]\n", p.c.Key(), p.v.Kind, p.v.Msg, outcome)
	}
	for _, l := range knownLines {
		fmt.Println(l)
	}
	for _, l := range violLines {
		fmt.Println(l)
	}
	// native validation of reference models / contracts: a sample of the cases that held, on random inputs
	if os.Getenv("VERIF_NOSELF") == "" {
		per := 2
		if tier != "quick" {
			per = 6
		}
		byH := map[string][]Case{}
		for i := range results {
			if results[i].Status == sym.StatusOK {
				byH[results[i].Case.Harness+"|"+results[i].Case.Config] = append(byH[results[i].Case.Harness+"|"+results[i].Case.Config], results[i].Case)
			}
		}
		var sample []Case
		for _, cs := range byH {
			sort.Slice(cs, func(i, j int) bool { return cs[i].Key() < cs[j].Key() })
			for k := 0; k < per && k < len(cs); k++ {
				sample = append(sample, cs[(k*(len(cs)-1))/max(per-1, 1)])
			}
		}
		n, bad := SelfTest(ck.ID, sample, 2, filepath.Join(workDir, "self"))
		replays += n
		for _, b := range bad {
			inconclusive = append(inconclusive, "MODEL-MISMATCH: "+b)
		}
	}
	if len(reachMissing) > 0 {
		inconclusive = append(inconclusive, fmt.Sprintf("vacuity: %d cases never reached their end witness, e.g. %s", len(reachMissing), reachMissing[0]))
	}
	if total.Errors > 0 {
		inconclusive = append(inconclusive, fmt.Sprintf("%d solver errors", total.Errors))
	}
	if confirmedViol > 0 {
		exit = 1
	} else if len(inconclusive) > 0 {
		exit = 2
	}
	for i, m := range inconclusive {
		if i < 12 {
			fmt.Println("INCONCLUSIVE:", m)
		}
	}
	// ---- evidence ----
	var fl []string
	for f := range funcs {
		if strings.Contains(f, "gmsm") && !strings.Contains(f, "verifH_") && !strings.Contains(f, ".verif") {
			fl = append(fl, strings.Replace(f, Module+"/", "", 1))
		}
	}
	sort.Strings(fl)
	if len(samples) == 0 {
		for i := range results {
			if len(samples) < 3 {
				samples = append(samples, map[string]interface{}{"case": results[i].Case.Key(), "status": results[i].Status.String(), "msg": results[i].Msg})
			}
		}
	}
	ev := Evidence{PropertyID: ck.ID, Tier: tier, Seed: seed, Level: "model_checking",
		Assumptions: ck.Assumptions, WallS: time.Since(t0).Seconds(), Violations: confirmedViol}
	ev.Coverage = map[string]interface{}{
		"states":                        max(paths, 0),
		"transitions":                   steps,
		"traces_validated_against_impl": replays,
		"samples":                       samples,
		"cases":                         len(cases),
		"obligations":                   obl,
		"discharged_by_solver":          disch,
		"discharged_by_simplification":  triv,
		"queries":                       map[string]interface{}{"total": total.Queries, "sat": total.Sat, "unsat": total.Unsat, "unknown": total.Unknown, "errors": total.Errors},
		"lemmas_chained":                map[string]int{"candidates": sweepC, "proved_by_solver": sweepP},
		"solver":                        r.Solver,
		"cross_check_solver":            r.Cross,
		"solver_time_s":                 total.Time.Seconds(),
		"solver_max_query_s":            total.MaxTime.Seconds(),
		"load_ssa_s":                    loadWall.Seconds(),
		"functions_encoded":             fl,
		"stubs":                         ck.Stubs,
		"bounds":                        ck.Bounds[tier],
		"outside_claim":                 ck.Outside,
		"oracle":                        ck.Oracle,
		"inconclusive":                  inconclusive,
		"known_findings_reproduced":     keys(knownHit),
		"explanation":                   "bounded symbolic execution of the real go/ssa code; each obligation is an SMT query (unsat = holds for every value of the symbolic inputs inside the bounds)",
	}
	os.MkdirAll(filepath.Join(VerifRoot, "evidence"), 0o755)
	b, _ := json.MarshalIndent(ev, "", " ")
	os.WriteFile(filepath.Join(VerifRoot, "evidence", ck.ID+".json"), b, 0o644)
	os.RemoveAll(workDir)
	fmt.Printf("%s %s: cases=%d paths=%d obligations=%d (solver %d, trivial %d) queries=%d solver=%.1fs wall=%.1fs violations=%d known=%d inconclusive=%d -> exit %d\n",
		ck.ID, tier, len(cases), paths, obl, disch, triv, total.Queries, total.Time.Seconds(), time.Since(t0).Seconds(), confirmedViol, len(knownLines), len(inconclusive), exit)
	return exit
}

var digitsRe = regexp.MustCompile(`[0-9]+`)

func keys(m map[string]bool) []string {
	out := []string{}
	for k := range m {
		out = append(out, k)
	}
	sort.Strings(out)
	return out
}

func tail(s string, n int) string {
	ls := strings.Split(s, "\n")
	if len(ls) > n {
		ls = ls[len(ls)-n:]
	}
	return strings.Join(ls, "\n")
}
