package checks

import "gosym/driver"

func sm9OverridesC10() map[string]string {
	m := sm9Overrides()
	b := driver.Module + "/internal/sm9/bn256"
	s := driver.Module + "/internal/sm9"
	m["(*"+b+".GT).Add"] = "verifModel_GT_Add"
	m[b+".ScalarMultGT"] = "verifModel_ScalarMultGT"
	m["(*"+s+".SignMasterPublicKey).ScalarBaseMult"] = "verifModel_SignMasterPublicKey_ScalarBaseMult"
	m["(*"+s+".EncryptMasterPublicKey).ScalarBaseMult"] = "verifModel_EncryptMasterPublicKey_ScalarBaseMult"
	m[driver.Module+"/internal/sm3.blockGeneric"] = "verifModel_blockGeneric"
	m[s+".hash"] = "verifModel_hash"
	return m
}

func init() {
	register(&driver.Check{
		ID: "C10",
		Cases: func(tier string) []driver.Case {
			var cs []driver.Case
			for _, sn := range []int{0, 64, 65, 66} {
				c := driver.Case{Harness: "verifH_c10_verify", Pkg: "internal/sm9", Config: "purego", Params: P("sn", sn), Overrides: sm9OverridesC10(), MaxUnwind: 2000, TimeoutS: 1800, Portfolio: true}
				if sn == 65 {
					c.MustReach = []string{"accepted"}
				}
				cs = append(cs, c)
			}
			for hist := 0; hist <= 3; hist++ {
				cs = append(cs, driver.Case{Harness: "verifH_c10_kx_history", Pkg: "internal/sm9", Config: "purego", Params: P("hist", hist), Overrides: sm9OverridesC10(), MaxUnwind: 4000, TimeoutS: 1800, Portfolio: true, MustReach: []string{"done"}})
			}
			for _, cn := range []int{0, 63, 64, 65, 66} {
				c := driver.Case{Harness: "verifH_c10_unwrap", Pkg: "internal/sm9", Config: "purego", Params: P("cn", cn), Overrides: sm9OverridesC10(), MaxUnwind: 4000, TimeoutS: 900, Portfolio: true}
				if cn == 64 || cn == 65 {
					c.MustReach = []string{"accepted"}
				}
				cs = append(cs, c)
			}
			return cs
		},
		Functions:   []string{"internal/sm9.(*EncryptPrivateKey).UnwrapKey", "internal/sm9.(*SignMasterPublicKey).Verify, GenerateUserPublicKey, hashH1/hashH2 (real code over the uninterpreted SM3 compression function)", "internal/sm9.(*KeyExchange).InitKeyExchange, ConfirmResponder, sign, generateSharedKey, randomScalar", "bn256.(*G1).Unmarshal, (*gfP).Unmarshal (real range checks)", "internal/sm3 Kdf (purego)"},
		Assumptions: []string{"abstract groups and pairing: elements are their affine encodings, G1/G2/GT operations and the pairing are uninterpreted functions (harness/internal/sm9/bn256/models_purego.go); curve membership opaque", "uid lengths 2-3 bytes, key length 16"},
		Bounds:      map[string]string{"quick": "UnwrapKey: every C of 0/63/64/65/66 bytes; Verify: every (uid, hid, hash, h, S) with S of 0/64/65/66 bytes; key exchange: four initiator histories of up to two InitKeyExchange and two ConfirmResponder calls on one object", "thorough": "same"},
		Outside:     []string{"completeness and soundness of the schemes as pairing algebra (bilinearity is not in the model): that honest signatures verify, that unwrap/decrypt invert wrap/encrypt, that initiator and responder agree", "encryption modes, ASN.1 encodings of keys and ciphertexts", "cross-build byte equality other than the multi-lane KDF dispatch decided under C01"},
		Oracle:      "GM/T 0044 verification equation and key-exchange key derivation as data flow",
	})
}
