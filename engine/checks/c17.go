package checks

import "gosym/driver"

func init() {
	register(&driver.Check{
		ID: "C17",
		Cases: func(tier string) []driver.Case {
			var cs []driver.Case
			add := func(h string, p map[string]int) {
				cs = append(cs, driver.Case{Harness: h, Pkg: "drbg", Config: "purego", Params: p})
			}
			levels := []int{1, 2, 0x99}
			hss := []int{32}
			kls := []int{16}
			if tier != "quick" {
				hss = []int{32, 64}
				kls = []int{16, 32}
			}
			for gm := 0; gm < 2; gm++ {
				ns := []int{0, 1, 31, 32, 33, 64, 65}
				if gm == 1 {
					ns = []int{0, 1, 16, 31, 32, 33}
				}
				for _, alen := range []int{0, 1, 2, 7, 23, 55} {
					if tier == "quick" && alen > 7 {
						continue
					}
					for _, n := range ns {
						for li, level := range levels {
							if li != (n+alen)%3 && !(tier != "quick" && n == 32) {
								continue
							}
							for _, hs := range hss {
								add("verifH_c17_hash_generate", P("hs", hs, "level", level, "gm", gm, "n", n, "alen", alen))
								add("verifH_c17_hmac_generate", P("hs", hs, "level", level, "gm", gm, "n", n, "alen", alen))
							}
							for _, kl := range kls {
								nn := n
								if gm == 1 && n > 17 {
									nn = n - 16 // GM CTR limit is one block
								}
								add("verifH_c17_ctr_generate", P("kl", kl, "level", level, "gm", gm, "n", nn, "alen", alen))
							}
						}
					}
				}
				// NIST: above the per-request maximum
				if gm == 0 {
					add("verifH_c17_hash_generate", P("hs", 32, "level", 1, "gm", 0, "n", 2049, "alen", 0))
					add("verifH_c17_ctr_generate", P("kl", 16, "level", 1, "gm", 0, "n", 2049, "alen", 0))
				}
				for _, elen := range []int{0, 1, 16, 31, 32, 33, 48} {
					for _, alen := range []int{0, 1, 7, 16} {
						if tier == "quick" && alen == 16 && elen%2 == 1 {
							continue
						}
						level := levels[(elen+alen)%3]
						for _, hs := range hss {
							add("verifH_c17_hash_reseed", P("hs", hs, "level", level, "gm", gm, "elen", elen, "alen", alen))
							add("verifH_c17_hmac_reseed", P("hs", hs, "level", level, "gm", gm, "elen", elen, "alen", alen))
						}
						for _, kl := range kls {
							add("verifH_c17_ctr_reseed", P("kl", kl, "level", level, "gm", gm, "elen", elen, "alen", alen))
						}
					}
					for _, nlen := range []int{0, 1, 8, 15, 16, 17} {
						for _, plen := range []int{0, 3} {
							if tier == "quick" && plen == 3 && (elen+nlen)%2 == 1 {
								continue
							}
							level := levels[(elen+nlen)%3]
							for _, hs := range hss {
								add("verifH_c17_hash_new", P("hs", hs, "level", level, "gm", gm, "elen", elen, "nlen", nlen, "plen", plen))
								add("verifH_c17_hmac_new", P("hs", hs, "level", level, "gm", gm, "elen", elen, "nlen", nlen, "plen", plen))
							}
							for _, kl := range kls {
								add("verifH_c17_ctr_new", P("kl", kl, "level", level, "gm", gm, "elen", elen, "nlen", nlen, "plen", plen))
							}
						}
					}
				}
			}
			for _, n := range addLemmaSizes(tier) {
				add("verifH_c17_add_lemma", P("n", n))
			}
			for mech := 0; mech < 3; mech++ {
				for _, ra := range []int{0, 3, 8} {
					add("verifH_c17_interval", P("mech", mech, "reseedat", ra))
				}
				for failAt := 0; failAt <= 3; failAt++ {
					for mode := 1; mode <= 2; mode++ {
						if failAt == 0 && mode == 2 {
							continue
						}
						add("verifH_c17_prng_new", P("mech", mech, "failat", failAt, "mode", mode))
					}
				}
			}
			// reader wrapper
			for _, n := range []int{0, 1, 7, 8, 9, 16, 17, 24, 25} {
				for _, left := range []int{0, 1, 2, 5} {
					for _, interval := range []int{1, 2} {
						for failAt := 0; failAt <= 4; failAt++ {
							for mode := 1; mode <= 2; mode++ {
								if failAt == 0 && mode == 2 {
									continue
								}
								if tier == "quick" && (n%8 == 7) && failAt > 2 {
									continue
								}
								add("verifH_c17_prng_read", P("n", n, "max", 8, "left", left, "interval", interval, "failat", failAt, "mode", mode, "strength", 32))
							}
						}
					}
				}
			}
			return cs
		},
		Functions: []string{"drbg.(*HashDrbg|*HmacDrbg|*CtrDrbg).{Generate,Reseed}", "drbg.New{Hash,Hmac,Ctr}Drbg", "drbg.(*HashDrbg).derive/addW/addC/addH/addReseedCounter", "drbg.(*HmacDrbg).update", "drbg.(*CtrDrbg).{derive,bcc,update}", "drbg.(*BaseDrbg).NeedReseed/setSecurityLevel", "drbg.add/addOne", "drbg.(*DrbgPrng).{Read,getEntropy}", "drbg.New*DrbgPrng", "crypto/hmac (real code, over UF-H)"},
		Assumptions: []string{
			"UF-H: hash = uninterpreted function of the absorbed byte string (hash.Hash model accumulating writes); UF-E: block cipher = uninterpreted keyed permutation",
			"one operation from an arbitrary working state (V, C/Key symbolic; reseed counter an arbitrary uint64; elapsed time an arbitrary non-negative duration): sequences of operations follow by induction",
			"clock model: time.Now is one abstract instant per operation; time.Since(t) = now - t; elapsed time is set by the harness",
			"reference: SP 800-90A Rev.1 sections 10.1.1, 10.1.2, 10.2.1, 10.3 written in harness/drbg/c17.go; for GM mode the three documented deviations (reseed seed-material order for Hash_DRBG, one output block per request, minimum entropy/nonce lengths) — no copy of GM/T 0105-2021 is available offline",
			"HmacDrbg.Generate has no per-request maximum (SP 800-90A puts that test in the envelope); deliberately not asserted",
		},
		Bounds: map[string]string{
			"quick":    "hash size 32 / key length 16; request sizes {0,1,31,32,33,64,65} (NIST) and {0,1,16,31,32,33} (GM), additional input of 0,1,2,7 bytes, entropy 0..48, nonce 0..17, all three security levels; counter and elapsed time symbolic; reader wrapper: up to 4 chunks, 2 reseeds, source failing (error or short) at call 1..4",
			"thorough": "adds hash size 64 (seedlen 111), key length 32, additional input 23 and 55 bytes (Block_Cipher_df length classes)",
		},
		Outside: []string{"request sizes other than the boundary set", "wall-clock behaviour of time.Since itself", "the uniformity/entropy of the source"},
		Oracle:  "SP 800-90A Rev.1 algorithms transcribed in harness/drbg/c17.go",
	})
}

func addLemmaSizes(tier string) []int {
	if tier == "quick" {
		return []int{1, 8, 16, 55}
	}
	return []int{1, 8, 16, 55, 111}
}
