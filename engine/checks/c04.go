package checks

import "gosym/driver"

func init() {
	register(&driver.Check{
		ID: "C04",
		Cases: func(tier string) []driver.Case {
			var cs []driver.Case
			add := func(h string, p map[string]int) {
				cs = append(cs, driver.Case{Harness: h, Pkg: "cipher", Config: "purego", Params: p, TimeoutS: 1200})
			}
			add("verifH_c04_ccm_args", P())
			maxN := 33
			aads := []int{0, 1, 13, 14, 15, 16, 30, 31}
			if tier != "quick" {
				maxN = 65
			}
			for ns := 7; ns <= 13; ns++ {
				for ts := 4; ts <= 16; ts += 2 {
					for n := 0; n <= maxN; n++ {
						for ai, alen := range aads {
							if tier == "quick" && (n+ns+ts/2+ai)%8 != 0 && !(n <= 1 && ai < 2 && ts == 16) {
								continue
							}
							pre, sp := 0, 0
							switch (n + ai) % 3 {
							case 1:
								pre, sp = 3, 0
							case 2:
								pre, sp = 2, n+ts+4
							}
							add("verifH_c04_ccm_seal", P("ns", ns, "ts", ts, "n", n, "alen", alen, "prefix", pre, "spare", sp))
							add("verifH_c04_ccm_open", P("ns", ns, "ts", ts, "n", n, "alen", alen, "prefix", pre))
						}
					}
				}
				for _, nl := range []int{0, ns - 1, ns, ns + 1} {
					for _, n := range []int{0, 3, 4, 15, 16} {
						add("verifH_c04_ccm_short", P("ns", ns, "ts", 4+2*(ns%7), "n", n, "noncelen", nl))
					}
				}
			}
			// AAD length-encoding boundary of RFC 3610 (2-byte form below 0xff00, 6-byte form from there)
			big := []int{0xfeff, 0xff00}
			if tier == "quick" {
				big = []int{0xff00}
			}
			for _, alen := range big {
				add("verifH_c04_ccm_seal", P("ns", 12, "ts", 16, "n", 5, "alen", alen, "prefix", 0, "spare", 0))
			}
			// ---- GCM (asm-wrappers configuration) ----
			gov := map[string]string{
				driver.Module + "/internal/sm4.encryptBlockGo":       "verifModel_encryptBlockGo",
				"(*" + driver.Module + "/internal/sm4.gcm).mul":      "verifModel_gcm_mul",
				driver.Module + "/internal/sm4.gcmDouble":            "verifModel_gcmDouble",
				driver.Module + "/internal/sm4.gcmInc32":             "verifModel_gcmInc32",
			}
			addG := func(h string, p map[string]int) {
				cs = append(cs, driver.Case{Harness: h, Pkg: "internal/sm4", Config: "asm", Params: p, Overrides: gov, TimeoutS: 1200})
			}
			cs = append(cs, driver.Case{Harness: "verifH_c04_gcm_double", Pkg: "internal/sm4", Config: "asm", Params: P()})
			cs = append(cs, driver.Case{Harness: "verifH_c04_gcm_inc32", Pkg: "internal/sm4", Config: "asm", Params: P()})
			for _, tr := range []int{0, 2} {
				for fused := 0; fused < 2; fused++ {
					batch := 64
					if tr == 2 {
						batch = 128
					}
					ns := []int{0, 1, 15, 16, 17, 31, 33, batch - 1, batch, batch + 1, batch + 17, 2*batch + 16}
					for _, nsz := range []int{1, 8, 12, 13, 16, 17} {
						for ti, ts := range []int{12, 13, 16} {
							for ni, n := range ns {
								for ai, alen := range []int{0, 1, 16, 17, 20} {
									if tier == "quick" && (ni+ai+ti+nsz+fused)%5 != 0 {
										continue
									}
									pre, sp := 0, 0
									switch (ni + ai) % 3 {
									case 1:
										pre, sp = 3, 0
									case 2:
										pre, sp = 2, n+ts+4
									}
									addG("verifH_c04_gcm_seal", P("tier", tr, "fused", fused, "ns", nsz, "ts", ts, "n", n, "alen", alen, "prefix", pre, "spare", sp))
									addG("verifH_c04_gcm_open", P("tier", tr, "fused", fused, "ns", nsz, "ts", ts, "n", n, "alen", alen, "prefix", pre))
								}
							}
						}
					}
				}
			}
			return cs
		},
		Functions:   []string{"internal/sm4.(*gcm).{Seal,Open,deriveCounter,counterCrypt,auth,update,updateBlocks}", "internal/sm4.(*gcmAsm).{Seal,Open}", "internal/sm4.(*sm4CipherAsm|*sm4CipherGCM).NewGCM", "internal/sm4.gcmInc32/gcmDouble/gcmAdd", "cipher.NewCCM*", "cipher.(*ccm).{Seal,Open,auth,cmac,deriveCounter,MaxLength,NonceSize,Overhead}", "cipher.maxlen", "crypto/cipher.NewCTR (real generic code, over UF-E)", "crypto/subtle.ConstantTimeCompare"},
		Assumptions: []string{"UF-E: block cipher = uninterpreted keyed permutation; key, nonce, AAD, plaintext / candidate ciphertext and tag symbolic", "reference: RFC 3610 written in harness/cipher/c04.go", "tamper rejection is decided structurally: Open succeeds iff the tag recomputed over exactly the received nonce/AAD/ciphertext equals the received tag (that no other input maps to the same tag is a property of the cipher, not of this code)", "GCM: multiplication by the hash key in GF(2^128) is an uninterpreted function (mulH) for both the table-driven Go path ((*gcm).mul summarised) and the fused kernels; the five fused kernels and the SM4 block kernels are contract models (harness/internal/sm4), validated natively against the real assembly"},
		Bounds:      map[string]string{"quick": "GCM: tiers SSE/AVX2 x {table-driven Go, fused asm wrapper} x nonce sizes {1,8,12,13,16,17} x tag sizes {12,13,16} x plaintext {0,1,15,16,17,31,33,batch-1,batch,batch+1,batch+17,2*batch+16} x AAD {0,1,16,17,20} (one fifth of the grid per run); J0 for non-96-bit nonces is a UF value so the 32-bit counter wrap is symbolic; CCM: nonce sizes 7..13 x tag sizes 4..16 x plaintext 0..33 bytes x AAD {0,1,13,14,15,16,30,31} (one eighth of the grid per run, all boundary cases), dst prefix/capacity variants, AAD of 0xff00 bytes", "thorough": "the full grid with plaintext 0..65, AAD 0xfeff and 0xff00 bytes"},
		Outside:     []string{"bodies of gcm_amd64.s / asm_amd64.s", "equivalence of the 4-bit table multiplication (*gcm).mul with GF(2^128) multiplication", "CCM AAD >= 2^32 bytes; GCM AAD/plaintext beyond the bounds"},
		Oracle:      "RFC 3610",
	})
}
