package checks

import "gosym/driver"

func init() {
	register(&driver.Check{
		ID: "C16",
		Cases: func(tier string) []driver.Case {
			var cs []driver.Case
			maxN := 6
			if tier != "quick" {
				maxN = 8
			}
			for n := 2; n <= maxN; n++ {
				cs = append(cs, driver.Case{Harness: "verifH_c16_ber_id", Pkg: "pkcs7", Config: "purego", Params: P("n", n), MaxUnwind: 64, TimeoutS: 2400, MustReach: []string{"der"}})
			}
			cs = append(cs, driver.Case{Harness: "verifH_c16_length", Pkg: "pkcs7", Config: "purego", Params: P(), MaxUnwind: 64})
			for _, size := range []int{16, 32} {
				cs = append(cs, driver.Case{Harness: "verifH_c16_datakey", Pkg: "pkcs7", Config: "purego", Params: P("size", size), MaxUnwind: 200, TimeoutS: 300, MustReach: []string{"ok", "failed"}})
			}
			return cs
		},
		Functions:   []string{"pkcs7.ber2der/readObject/isIndefiniteTermination", "pkcs7.asn1Structured/asn1Primitive.EncodeTo, encodeLength, marshalLongLength, lengthLength", "bytes.Buffer (real code)"},
		Assumptions: []string{"only the last sentence of the property is decided: for every byte string of the stated length that is a DER TLV tree (definite minimal lengths, children filling their parent exactly, no trailing bytes; reference predicate in harness/pkcs7/c13.go) ber2der returns exactly the input", "signed/enveloped-data behaviour rests on encoding/asn1 reflection and real cryptography and is outside this technique (see DESIGN.md C16)"},
		Bounds:      map[string]string{"quick": "every byte string of 2..6 bytes; the length re-encoder for every length 0..2^31-1 (symbolic)", "thorough": "2..8 bytes"},
		Outside:     []string{"SignedData/EnvelopedData/EncryptedData/SignedAndEnvelopedData production, parsing and verification (encoding/asn1, math/big, real crypto)", "inputs longer than the bound, lengths >= 128"},
		Oracle:      "structural DER predicate",
	})
}
