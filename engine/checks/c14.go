package checks

import "gosym/driver"

func init() {
	register(&driver.Check{
		ID: "C14",
		Cases: func(tier string) []driver.Case {
			var cs []driver.Case
			// SM9 master private scalars (both kinds): every byte string of 0..33 (40) bytes
			lens := []int{0, 1, 31, 32, 33}
			if tier != "quick" {
				lens = []int{0, 1, 2, 8, 16, 24, 30, 31, 32, 33, 34, 40}
			}
			for which := 0; which <= 1; which++ {
				for _, n := range lens {
					c := driver.Case{Harness: "verifH_c14_sm9_masterrange", Pkg: "internal/sm9", Config: "purego", Params: P("which", which, "n", n), Overrides: sm9Overrides(), MaxUnwind: 400, TimeoutS: 300}
					if n >= 1 && n <= 32 {
						c.MustReach = []string{"accepted"}
					}
					cs = append(cs, c)
				}
			}
			// SM2 private scalars
			ov := sm2Overrides()
			ov[driver.Module+"/sm2.p256"] = "verifModel_p256"
			for _, n := range []int{0, 31, 32, 33} {
				c := driver.Case{Harness: "verifH_c14_sm2_range", Pkg: "sm2", Config: "purego", Params: P("n", n), Overrides: ov, MaxUnwind: 400, TimeoutS: 300}
				if n == 32 {
					c.MustReach = []string{"accepted"}
				}
				cs = append(cs, c)
			}
			// ECDH private scalars
			for _, n := range []int{0, 31, 32, 33} {
				cs = append(cs, driver.Case{Harness: "verifH_c14_ecdh_range", Pkg: "ecdh", Config: "purego", Params: P("n", n), Overrides: sm2Overrides(), MaxUnwind: 400, TimeoutS: 300})
			}
			return cs
		},
		Functions:   []string{"internal/sm9.NewSignMasterPrivateKey, NewEncryptMasterPrivateKey, isLess, bn256.NormalizeScalar (real math/big code)", "sm2.NewPrivateKey (real bigmod limb code)", "ecdh.(*sm2Curve).NewPrivateKey, isLess"},
		Assumptions: []string{"group arithmetic abstract (base-point multiplication an uninterpreted function of the scalar, recorded)", "sm2.p256() replaced by the same curve context built without math/big tables (constants compared with the real ones in native runs)"},
		Bounds:      map[string]string{"quick": "every byte string of 0, 1, 31, 32, 33 bytes (SM9), 0/31/32/33 bytes (SM2, ECDH)", "thorough": "SM9: twelve lengths 0..40"},
		Outside:     []string{"every container format (PKCS#8, SEC1, PKIX, PEM, enveloped key, CFCA blob, SM9 ASN.1): encoding/asn1 reflection, PBKDF2/scrypt, real ciphers", "wrong-password and tamper rejection of the containers", "RSA/ECDSA keys"},
		Oracle:      "range predicate [1, n-2] on the big-endian value",
	})
}
