package checks

import "gosym/driver"

func init() {
	register(&driver.Check{
		ID: "C19",
		Cases: func(tier string) []driver.Case {
			var cs []driver.Case
			add := func(h string, p map[string]int) {
				cs = append(cs, driver.Case{Harness: h, Pkg: "cbcmac", Config: "purego", Params: p})
			}
			for scheme := 0; scheme < 8; scheme++ {
				for _, bs := range []int{8, 16} {
					add("verifH_c19_ctor", P("scheme", scheme, "bs", bs))
					maxN := 3*bs + 1
					if tier != "quick" {
						maxN = 5*bs + 1
					}
					for n := 0; n <= maxN; n++ {
						sizes := []int{bs}
						if tier != "quick" || n%bs <= 1 || n%bs == bs-1 {
							sizes = uniq([]int{1, bs / 2, bs - 1, bs})
						}
						for _, size := range sizes {
							spares := []int{0}
							if n%bs == 3 || tier != "quick" {
								spares = []int{0, 2 * bs}
							}
							for _, sp := range spares {
								add("verifH_c19_spec", P("scheme", scheme, "bs", bs, "n", n, "size", size, "spare", sp, "tail", n%bs))
							}
						}
					}
					for n := 1; n <= bs; n++ {
						if tier == "quick" && !(n <= 2 || n >= bs-1 || n == bs/2) {
							continue
						}
						add("verifH_c19_inject", P("scheme", scheme, "bs", bs, "n", n, "tail", n%bs))
					}
				}
			}
			// CMAC histories
			for _, bs := range []int{8, 16} {
				lens := []int{0, 1, bs - 1, bs, bs + 1, 2 * bs}
				prevs := []int{0, 1, bs - 1, bs, bs + 3, 2*bs + 1}
				if tier != "quick" {
					lens = nil
					for i := 0; i <= 2*bs+1; i++ {
						lens = append(lens, i)
					}
				}
				for mode := 0; mode < 3; mode++ {
					for _, n0 := range prevs {
						if mode == 2 && n0 != 0 {
							continue
						}
						for _, a := range lens {
							for _, b := range lens {
								for _, c := range lens {
									if tier != "quick" && a+b+c > 3*bs+1 {
										continue
									}
									if tier == "quick" && (a+b+c > 3*bs+1 || (mode != 2 && (a+b+c)%2 == 1 && n0%2 == 1)) {
										continue
									}
									add("verifH_c19_cmac_hist", P("bs", bs, "size", bs, "mode", mode, "n0", n0, "a", a, "b", b, "c", c))
								}
							}
						}
					}
				}
			}
			return cs
		},
		Functions: []string{"cbcmac.New*", "cbcmac.(*cbcmac|*emac|*ansiRetailMAC|*macDES|*cmac|*lmac|*trCBCMAC|*cbcrMAC).{MAC,Size}", "cbcmac.(*cmac).{Write,Sum,Reset,block,checkSum}", "cbcmac.shiftLeft/shiftRight", "padding.iso9797M2Padding.Pad"},
		Assumptions: []string{
			"UF-E: the block cipher is an uninterpreted keyed permutation E/D with D(k,E(k,x))=x, E(k,D(k,x))=x (rewriting + instance axioms); keys, messages and spare-capacity bytes are symbolic; block size 8 and 16",
			"reference definitions of the eight algorithms written from ISO/IEC 9797-1:2011 / GB/T 15852.1 (harness/cbcmac/c19.go), validated against the library and the GB/T appendix vectors in the design round",
			"CBCR0 on the empty message is outside the reference (the published vector does not determine the rule); only tag length and determinism are checked there",
		},
		Bounds: map[string]string{
			"quick":    "8 schemes x block size {8,16} x every message length 0..3bs+1 x tag sizes {1,bs/2,bs-1,bs} on boundary lengths; CMAC histories: previous message {0,1,bs-1,bs,bs+3,2bs+1} x 3-way splits over {0,1,bs-1,bs,bs+1,2bs} with interleaved Sum; injectivity on messages of 1,2,bs/2,bs-1,bs bytes",
			"thorough": "message lengths 0..5bs+1, all four tag sizes and spare capacity; CMAC histories with every split a,b,c in 0..2bs+1 (a+b+c <= 3bs+1); injectivity for every length 1..bs",
		},
		Outside: []string{"messages longer than the bound (one more iteration of the same loop body)", "block sizes other than 8 and 16", "CBCR0 empty message value"},
		Oracle:  "ISO/IEC 9797-1 / GB/T 15852.1 algorithm definitions in harness/cbcmac/c19.go",
	})
}
