package checks

import "gosym/driver"

func init() {
	register(&driver.Check{
		ID: "C01",
		Cases: func(tier string) []driver.Case {
			var cs []driver.Case
			pk := "internal/sm3"
			gen := map[string]string{driver.Module + "/internal/sm3.blockGeneric": "verifModel_blockGeneric"}
			add := func(cfg, h string, p map[string]int) {
				c := driver.Case{Harness: h, Pkg: pk, Config: cfg, Params: p}
				if cfg == "purego" {
					c.Overrides = gen
				}
				cs = append(cs, c)
			}
			maxN := 130
			if tier != "quick" {
				maxN = 260
			}
			// Write / Sum / Marshal: one step from an arbitrary state (purego: real Go code only)
			for nx := 0; nx < 64; nx++ {
				for n := 0; n <= maxN; n++ {
					if tier == "quick" {
						// every nx with the lengths around the block boundaries it induces
						fill := 64 - nx
						if !(n <= 2 || n == fill-1 || n == fill || n == fill+1 || n == fill+63 || n == fill+64 || n == fill+65 || n == 64 || n == 128 || n == maxN) {
							continue
						}
					}
					add("purego", "verifH_c01_write", P("nx", nx, "n", n))
				}
				for _, pre := range []int{0, 5} {
					for _, sp := range []int{0, 40} {
						add("purego", "verifH_c01_sum", P("nx", nx, "prefix", pre, "spare", sp))
					}
				}
				add("purego", "verifH_c01_reset_marshal", P("nx", nx))
			}
			for _, n := range []int{0, 1, 3, 4, 5, 35, 36, 99, 107, 108, 109, 120} {
				add("purego", "verifH_c01_unmarshal_any", P("n", n))
			}
			// KDF from an arbitrary absorbed state, every nx, through the dispatcher of each build/tier
			limits := []int{1, 2, 3}
			alimits := []int{1, 3, 4, 5, 7, 8, 9, 12}
			if tier != "quick" {
				limits = []int{1, 2, 3, 4, 5, 8, 9}
				alimits = []int{1, 2, 3, 4, 5, 6, 7, 8, 9, 11, 12, 13, 16, 17}
			}
			for nx := 0; nx < 64; nx++ {
				for _, l := range limits {
					for _, kl := range uniq([]int{32*l - 31, 32*l - 1, 32 * l}) {
						add("purego", "verifH_c01_kdf_state", P("nx", nx, "limit", l, "keylen", kl))
					}
				}
				for t := 0; t < 3; t++ {
					for _, l := range alimits {
						if tier == "quick" && t == 1 && l > 5 {
							continue // tier 1 differs from tier 0 only in the single-block kernel
						}
						for _, kl := range uniq([]int{32*l - 31, 32 * l}) {
							if tier == "quick" && kl != 32*l && (nx+l)%2 == 0 {
								continue
							}
							add("asm", "verifH_c01_kdf_state", P("tier", t, "nx", nx, "limit", l, "keylen", kl))
						}
					}
				}
			}
			// exported API on a used object, two calls in a row
			for _, zl := range []int{0, 1, 31, 51, 52, 55, 56, 59, 60, 63, 64, 65, 116, 124, 128} {
				for _, kl := range []int{1, 32, 97, 128, 129, 256, 300} {
					if tier == "quick" && (zl+kl)%3 == 0 && kl < 97 {
						continue
					}
					zl2 := (zl*7 + 3) % 70
					kl2 := 97 + (kl % 60)
					add("purego", "verifH_c01_kdf_api", P("nx", zl%7, "zlen", zl, "keylen", kl, "zlen2", zl2, "keylen2", kl2))
					for t := 0; t < 3; t += 2 {
						add("asm", "verifH_c01_kdf_api", P("tier", t, "nx", zl%7, "zlen", zl, "keylen", kl, "zlen2", zl2, "keylen2", kl2))
					}
				}
			}
			for _, sp := range [][3]int{{0, 0, 0}, {1, 0, 0}, {55, 1, 0}, {56, 0, 8}, {63, 1, 1}, {64, 64, 1}, {3, 61, 64}, {100, 28, 1}, {0, 129, 0}} {
				add("purego", "verifH_c01_hash_api", P("a", sp[0], "b", sp[1], "c", sp[2]))
				for t := 0; t < 3; t++ {
					add("asm", "verifH_c01_hash_api", P("tier", t, "a", sp[0], "b", sp[1], "c", sp[2]))
				}
			}
			// blockGeneric vs the standard's CF, by chained lemmas (no UF override here)
			cs = append(cs, driver.Case{Harness: "verifH_c01_block", Pkg: pk, Config: "purego", Params: P("blocks", 1), TimeoutS: 3000})
			if tier != "quick" {
				cs = append(cs, driver.Case{Harness: "verifH_c01_block", Pkg: pk, Config: "purego", Params: P("blocks", 2), TimeoutS: 3000})
			}
			return cs
		},
		Functions: []string{"internal/sm3.blockGeneric (vs GB/T 32905 CF, chained lemmas)", "internal/sm3.(*digest).{Write,Sum,checkSum,Reset,MarshalBinary,AppendBinary,UnmarshalBinary,Kdf}", "internal/sm3.{New,Kdf,kdf,kdfGeneric,kdfBy4,kdfBy8,prepareInitData,block}", "internal/byteorder"},
		Assumptions: []string{
			"UF-C: the compression function CF(V,B) is an uninterpreted function; every block routine (blockGeneric in purego; blockAMD64/blockSIMD/blockAVX2/blockMultBy4/8 + copyResultsBy4/8 in the asm build) is replaced by the contract 'fold CF over the 64-byte chunks' with its memory footprint asserted",
			"one step from an arbitrary valid state (h arbitrary, nx buffered bytes, stale bytes after them arbitrary, len = 64q+nx with q < 2^54): digests of arbitrarily long messages and arbitrary Write/Sum/Reset/Marshal histories follow by induction",
			"reference: GB/T 32905 padding and GB/T 32918.4 KDF (H(z||ct)) written in harness/internal/sm3/c01.go",
			"dispatch tiers are selected by setting useAVX2/useAVX/useSSSE3 per case",
		},
		Bounds: map[string]string{
			"quick":    "blockGeneric = CF for every chaining value and every 64-byte block (unbounded in the data); every nx 0..63; Write argument lengths around every block boundary up to 130 bytes; Sum with prefix/spare capacity; KDF: limit 1..3 (purego) and {1,3,4,5,7,8,9,12} output blocks on tiers scalar/SSSE3/AVX2 with keyLen at block boundaries; exported Kdf on used objects, two consecutive calls, len(z) in 15 classes incl. 52, 60..63 mod 64",
			"thorough": "Write argument every length 0..260; KDF limits up to 17 blocks on every tier",
		},
		Outside: []string{"bodies of the assembly routines (sm3block_*.s, sm3blocks_*.s)", "single Write arguments longer than the bound", "total length >= 2^60 bytes"},
		Oracle:  "GB/T 32905 padding / iteration and the KDF definition, harness/internal/sm3/c01.go",
	})
}
