package checks

import "gosym/driver"

func init() {
	register(&driver.Check{
		ID: "C06",
		Cases: func(tier string) []driver.Case {
			var cs []driver.Case
			maxN := 10
			if tier != "quick" {
				maxN = 13
			}
			for n := 0; n <= maxN; n++ {
				c := driver.Case{Harness: "verifH_c06_parse", Pkg: "sm2", Config: "purego", Params: P("n", n), MaxUnwind: 64, TimeoutS: 2400}
				if n >= 8 {
					c.MustReach = []string{"accepted"}
				}
				cs = append(cs, c)
			}
			for calls := 1; calls <= 3; calls++ {
				for dsel := 0; dsel < 4; dsel++ {
					cs = append(cs, driver.Case{Harness: "verifH_c06_history", Pkg: "sm2", Config: "purego", Params: P("calls", calls, "dsel", dsel), Overrides: sm2Overrides(), MaxUnwind: 200, TimeoutS: 1200})
				}
			}
			cs = append(cs, driver.Case{Harness: "verifH_c06_encode", Pkg: "sm2", Config: "purego", Params: P(), MaxUnwind: 200, TimeoutS: 1200})
			signOv := sm2OverridesAbs()
			signOv[driver.Module+"/sm2.encodeSignature"] = "verifModel_encodeSignature"
			cs = append(cs, driver.Case{Harness: "verifH_c06_signspec", Pkg: "sm2", Config: "purego", Params: P(), Overrides: signOv, MaxUnwind: 400, TimeoutS: 2400, Portfolio: true, SoftBranch: true, SoftMs: 2500, QueryMs: 20000, MustReach: []string{"signed", "retried", "failed"}})
			lz := [][2]int{{0, 0}, {1, 0}, {0, 32}, {32, 0}}
			if tier != "quick" {
				lz = append(lz, [2]int{31, 31}, [2]int{0, 1}, [2]int{2, 3}, [2]int{32, 32})
			}
			for _, z := range lz {
				c := driver.Case{Harness: "verifH_c06_verifyspec", Pkg: "sm2", Config: "purego", Params: P("lzr", z[0], "lzs", z[1]), Overrides: sm2OverridesAbs(), MaxUnwind: 400, TimeoutS: 2400, Portfolio: true, SoftBranch: true, SoftMs: 2500, QueryMs: 20000}
				if z[0] < 32 && z[1] < 32 {
					c.MustReach = []string{"accepted"}
				}
				cs = append(cs, c)
			}
			for mod := 0; mod <= 1; mod++ {
				cs = append(cs, driver.Case{Harness: "verifH_bigmod_cmp", Pkg: "internal/bigmod", Config: "purego", Params: P("mod", mod), Overrides: map[string]string{driver.Module + "/internal/bigmod.bitLen": "verifModel_bitLen"}, MaxUnwind: 400, TimeoutS: 1200, Portfolio: true})
				for op := 0; op <= 1; op++ {
					cs = append(cs, driver.Case{Harness: "verifH_bigmod_addsub", Pkg: "internal/bigmod", Config: "purego", Params: P("mod", mod, "op", op), Overrides: map[string]string{driver.Module + "/internal/bigmod.bitLen": "verifModel_bitLen"}, MaxUnwind: 400, TimeoutS: 1200, Portfolio: true})
				}
			}
			return cs
		},
		Functions:   []string{"sm2.parseSignature", "sm2.signSM2EC, (*PrivateKey).inverseOfPrivateKeyPlus1 (history of calls on one key object)", "internal/bigmod (real limb code), sync.Once (sequential model)", "golang.org/x/crypto/cryptobyte (real code)"},
		Assumptions: []string{"reference strict-DER predicate in harness/sm2/c06.go", "history harness: private scalars n-1, n, n+1 and 2^256-1 as representatives of d >= n-1, one to three consecutive signing calls on the same key object, abstract group/scalar-field arithmetic (harness/internal/sm2ec)", "entry point signSM2EC (the exported wrappers dispatch on elliptic.CurveParams built from math/big tables)"},
		Bounds:      map[string]string{"quick": "parser: every byte string of 0..10 bytes; history: 1..3 calls x 4 scalars", "thorough": "parser: 0..13 bytes"},
		Outside:     []string{"that honest signatures satisfy the verification equation and that verification accepts exactly valid signatures (ring algebra over Z_n plus curve arithmetic: uninterpreted here)", "ZA/digest computation, smx509 entry point, legacy curves"},
		Oracle:      "strict DER",
	})
}
