package checks

import "gosym/driver"

func init() {
	register(&driver.Check{
		ID: "C06",
		Cases: func(tier string) []driver.Case {
			var cs []driver.Case
			maxN := 10
			if tier != "quick" {
				maxN = 13
			}
			for n := 0; n <= maxN; n++ {
				c := driver.Case{Harness: "verifH_c06_parse", Pkg: "sm2", Config: "purego", Params: P("n", n), MaxUnwind: 64, TimeoutS: 2400}
				if n >= 8 {
					c.MustReach = []string{"accepted"}
				}
				cs = append(cs, c)
			}
			for calls := 1; calls <= 3; calls++ {
				for dsel := 0; dsel < 4; dsel++ {
					cs = append(cs, driver.Case{Harness: "verifH_c06_history", Pkg: "sm2", Config: "purego", Params: P("calls", calls, "dsel", dsel), Overrides: sm2Overrides(), MaxUnwind: 200, TimeoutS: 1200})
				}
			}
			cs = append(cs, driver.Case{Harness: "verifH_c06_encode", Pkg: "sm2", Config: "purego", Params: P(), MaxUnwind: 200, TimeoutS: 1200})
			return cs
		},
		Functions:   []string{"sm2.parseSignature", "sm2.signSM2EC, (*PrivateKey).inverseOfPrivateKeyPlus1 (history of calls on one key object)", "internal/bigmod (real limb code), sync.Once (sequential model)", "golang.org/x/crypto/cryptobyte (real code)"},
		Assumptions: []string{"reference strict-DER predicate in harness/sm2/c06.go", "history harness: private scalars n-1, n, n+1 and 2^256-1 as representatives of d >= n-1, one to three consecutive signing calls on the same key object, abstract group/scalar-field arithmetic (harness/internal/sm2ec)", "entry point signSM2EC (the exported wrappers dispatch on elliptic.CurveParams built from math/big tables)"},
		Bounds:      map[string]string{"quick": "parser: every byte string of 0..10 bytes; history: 1..3 calls x 4 scalars", "thorough": "parser: 0..13 bytes"},
		Outside:     []string{"that honest signatures satisfy the verification equation and that verification accepts exactly valid signatures (ring algebra over Z_n plus curve arithmetic: uninterpreted here)", "ZA/digest computation, smx509 entry point, legacy curves"},
		Oracle:      "strict DER",
	})
}
