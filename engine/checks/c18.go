package checks

import "gosym/driver"

func init() {
	register(&driver.Check{
		ID: "C18",
		Cases: func(tier string) []driver.Case {
			var cs []driver.Case
			add := func(h string, p map[string]int) {
				cs = append(cs, driver.Case{Harness: h, Pkg: "padding", Config: "purego", Params: p})
			}
			var bss []int
			if tier == "quick" {
				bss = []int{1, 2, 3, 4, 7, 8, 9, 12, 15, 16, 17, 24, 32, 64, 255}
			} else {
				for b := 1; b <= 255; b++ {
					bss = append(bss, b)
				}
			}
			for scheme := 0; scheme < 4; scheme++ {
				add("verifH_c18_ctor", P("scheme", scheme))
				for _, bs := range bss {
					var ns []int
					if tier == "quick" {
						ns = uniq([]int{0, 1, bs - 1, bs, bs + 1, 2 * bs, 2*bs + 1, 3*bs - 1})
					} else {
						for n := 0; n <= 2*bs+1; n++ {
							ns = append(ns, n)
						}
						ns = append(ns, 3*bs-1, 3*bs, 3*bs+1)
					}
					for _, n := range ns {
						if n < 0 {
							continue
						}
						// spare capacity: none, one byte, exactly the padded length, and more than enough
						k := bs - n%bs
						spares := uniq([]int{0, 1, k, k + 1, k + bs, k + 2*bs + 3})
						if tier != "quick" && bs > 48 {
							spares = uniq([]int{0, k, k + bs})
						}
						for _, sp := range spares {
							add("verifH_c18_roundtrip", P("scheme", scheme, "bs", bs, "n", n, "spare", sp))
						}
					}
				}
				// accept set
				var abs []int
				if tier == "quick" {
					abs = []int{1, 2, 3, 4, 8, 9, 16}
				} else {
					for b := 1; b <= 32; b++ {
						abs = append(abs, b)
					}
					abs = append(abs, 64, 255)
				}
				for _, bs := range abs {
					maxBlocks := 3
					if bs > 64 {
						maxBlocks = 2
					}
					for n := 0; n <= maxBlocks*bs; n++ {
						if n%bs != 0 && !(n == 1 || n == bs-1 || n == bs+1 || n == 2*bs+1) {
							continue
						}
						add("verifH_c18_accept", P("scheme", scheme, "bs", bs, "n", n))
						if bs > 64 {
							// tens of thousands of header values to enumerate for the 255-byte block: ~9 min
							cs[len(cs)-1].TimeoutS = 2400
						}
					}
				}
			}
			return cs
		},
		Functions: []string{"padding.(pkcs7Padding|ansiX923Padding|iso9797M2Padding|iso9797M3Padding).{Pad,Unpad,BlockSize}", "padding.New*Padding", "internal/alias.SliceForAppend", "internal/byteorder.BEPutUint64/BEUint64"},
		Assumptions: []string{
			"message/block-size/length/spare-capacity are concrete per case, all byte contents (message, spare capacity, candidate padded strings) are symbolic",
			"append reallocation is modelled with exact capacity (Go leaves growth unspecified)",
			"reference definitions: RFC 5652 6.3 (PKCS#7), ANSI X9.23, ISO/IEC 9797-1 padding methods 2 and 3 (length block = block-size-byte big-endian bit length, right aligned)",
			"method 3 with block size < 8: only messages whose bit length fits the length block are in the claim",
		},
		Bounds: map[string]string{
			"quick":    "block sizes {1,2,3,4,7,8,9,12,15,16,17,24,32,64,255} x message lengths {0,1,bs-1,bs,bs+1,2bs,2bs+1,3bs-1} x 6 spare-capacity classes; accept-set: every string of 0..3 blocks for bs in {1,2,3,4,8,9,16}; constructors for every uint 0..1000 (symbolic)",
			"thorough": "every block size 1..255 x every message length 0..2bs+1 and 3bs-1..3bs+1 x spare classes; accept-set: every string of 0..3 blocks for bs 1..32, 0..3 blocks for 64, 0..2 blocks for 255",
		},
		Outside: []string{"messages longer than 3 blocks+1 (same loop bodies)", "block sizes > 255 (rejected by the constructors, checked)"},
		Oracle:  "reference padding written from the standards in harness/padding/c18.go",
	})
}

func uniq(xs []int) []int {
	seen := map[int]bool{}
	var out []int
	for _, x := range xs {
		if !seen[x] {
			seen[x] = true
			out = append(out, x)
		}
	}
	return out
}
