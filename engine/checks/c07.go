package checks

import "gosym/driver"

func init() {
	register(&driver.Check{
		ID: "C07",
		Cases: func(tier string) []driver.Case {
			var cs []driver.Case
			maxN := 4
			if tier != "quick" {
				maxN = 12
			}
			for layout := 0; layout < 2; layout++ {
				for n := 1; n <= maxN; n++ {
					cs = append(cs, driver.Case{Harness: "verifH_c07_roundtrip", Pkg: "sm2", Config: "purego", Params: P("n", n, "layout", layout), Overrides: sm2Overrides(), MaxUnwind: 300, TimeoutS: 1800, MustReach: []string{"retried"}})
				}
			}
			for _, n := range []int{0, 1, 6, 12, 33, 64, 65, 66, 80, 96, 97, 98, 120, 140} {
				for _, f := range []int{-1, 2, 3, 4, 5, 0x30} {
					if (f == -1 || f == 0x30) && n > 12 {
						continue // the ASN.1 layout goes through math/big with one path per integer length: short inputs only
					}
					for order := 0; order < 2; order++ {
						if tier == "quick" && order == 1 && n%2 == 1 {
							continue
						}
						cs = append(cs, driver.Case{Harness: "verifH_c07_parse", Pkg: "sm2", Config: "purego", Params: P("n", n, "fmt", f, "order", order), Overrides: sm2Overrides(), MaxUnwind: 300, TimeoutS: 1800})
					}
				}
			}
			// legacy (math/big, curve other than SM2 P-256) round trip over the abstract elliptic.Curve
			for _, no := range [][3]int{{1, 0, 0}, {1, 1, 0}, {2, 0, 1}, {33, 1, 0}, {33, 0, 1}} {
				{
					n, order, short := no[0], no[1], no[2]
					cs = append(cs, driver.Case{Harness: "verifH_c07_legacy_roundtrip", Pkg: "sm2", Config: "purego", Params: P("n", n, "order", order, "short", short), Overrides: sm2Overrides(), MaxUnwind: 4000, MaxPaths: 20000, TimeoutS: 900, Solver: "cvc5", Portfolio: true, MustReach: []string{"roundtrip"}})
				}
			}
			return cs
		},
		Functions:   []string{"sm2.encryptLegacy, decryptLegacy, rawDecrypt, calculateC3, bytesToPoint, randFieldElement (math/big path, abstract elliptic.Curve)", "sm2.encryptSM2EC, encodeCiphertext, encodingCiphertextASN1, addASN1IntBytes", "sm2.decryptSM2EC, parseCiphertext, parseCiphertextASN1, unmarshalASN1Ciphertext, splitC2C3", "sm2.randomPoint, (*sm2Curve).pointFromAffine", "internal/sm2ec.(*SM2P256Point).SetBytes (format dispatch, real), fiat SetBytes range check (real)", "internal/sm3.Kdf/kdfGeneric, digest (real, over UF-C)", "cryptobyte, math/big SetBytes/Bytes/FillBytes/BitLen (real)"},
		Assumptions: []string{"abstract group: points are coordinate pairs, group operations uninterpreted; the Diffie-Hellman fact [k]([d]G) = [d]([k]G) is assumed on the uninterpreted functions; curve membership and square roots are opaque", "entry points are the unexported encryptSM2EC/decryptSM2EC (the exported wrappers dispatch on elliptic.CurveParams built with math/big tables)", "SM3 compression uninterpreted"},
		Bounds:      map[string]string{"quick": "messages of 1..4 bytes, layouts C1C3C2 / C1C2C3 with uncompressed C1, up to one all-zero-KDF retry and one rejected nonce; decrypt on arbitrary strings of 12 lengths 0..140 with each format byte", "thorough": "messages of 1..12 bytes"},
		Outside:     []string{"compressed C1 in the round trip (square roots are opaque)", "ASN.1 layout in the round trip and ASN.1 inputs longer than 12 bytes (math/big integer handling forks once per length; not run in the registered bounds)", "scalars and coordinates with leading zero bytes", "legacy-curve path (math/big)", "enveloped key container", "actual curve computations"},
		Oracle:      "GB/T 32918.4 round trip in the abstract group",
	})
}
