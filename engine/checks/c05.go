package checks

import "gosym/driver"

func init() {
	register(&driver.Check{
		ID: "C05",
		Cases: func(tier string) []driver.Case {
			var cs []driver.Case
			m := driver.Module + "/internal/sm2ec"
			ov := map[string]string{m + ".init#1": "verifModel_c05_noinit"}
			add := func(h string, p map[string]int, reach ...string) {
				cs = append(cs, driver.Case{Harness: h, Pkg: "internal/sm2ec", Config: "asm", Params: p, Overrides: ov, MaxUnwind: 3000, TimeoutS: 3000, MustReach: reach})
			}
			add("verifH_c05_booth", P("w", 6))
			add("verifH_c05_booth", P("w", 5))
			add("verifH_c05_basemult", P())
			if tier != "quick" {
				add("verifH_c05_scalarmult", P())
			}
			for _, n := range []int{0, 1, 32, 33, 64, 65, 66} {
				c := driver.Case{Harness: "verifH_c05_decode", Pkg: "internal/sm2ec", Config: "asm", Params: P("n", n), Overrides: ov, MaxUnwind: 3000, TimeoutS: 1200, Portfolio: true}
				if n == 1 || n == 33 || n == 65 {
					c.MustReach = []string{"accepted"}
				}
				cs = append(cs, c)
			}
			for which := 0; which <= 1; which++ {
				cs = append(cs, driver.Case{Harness: "verifH_c05_addlemma", Pkg: "internal/sm2ec", Config: "asm", Params: P("which", which), Overrides: ov, MaxUnwind: 3000, TimeoutS: 1200, Portfolio: true})
			}
			return cs
		},
		Functions:   []string{"internal/sm2ec.boothW5, boothW6", "(*SM2P256Point).ScalarBaseMult, p256BaseMult", "(*SM2P256Point).ScalarMult, p256ScalarMult"},
		Assumptions: []string{"exact-multiple model of the group"},
		Bounds:      map[string]string{"quick": "every 32-byte scalar", "thorough": "same"},
		Outside:     []string{"assembly bodies"},
		Oracle:      "exact integer multiple modulo the group order",
	})
}
