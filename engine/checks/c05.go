package checks

import "gosym/driver"

func init() {
	register(&driver.Check{
		ID: "C05",
		Cases: func(tier string) []driver.Case {
			var cs []driver.Case
			m := driver.Module + "/internal/sm2ec"
			ov := map[string]string{m + ".init#1": "verifModel_c05_noinit"}
			add := func(h string, p map[string]int, reach ...string) {
				cs = append(cs, driver.Case{Harness: h, Pkg: "internal/sm2ec", Config: "asm", Params: p, Overrides: ov, MaxUnwind: 3000, TimeoutS: 3000, MustReach: reach})
			}
			add("verifH_c05_booth", P("w", 6))
			add("verifH_c05_booth", P("w", 5))
			add("verifH_c05_basemult", P())
			// verifH_c05_scalarmult (variable-point driver, same model) did not converge: one chained-lemma
			// query ran for more than 25 minutes; it is not registered in any tier (stated as outside)
			_ = add
			for _, n := range []int{0, 1, 32, 33, 64, 65, 66} {
				c := driver.Case{Harness: "verifH_c05_decode", Pkg: "internal/sm2ec", Config: "asm", Params: P("n", n), Overrides: ov, MaxUnwind: 3000, TimeoutS: 1200, Portfolio: true}
				if n == 1 || n == 33 || n == 65 {
					c.MustReach = []string{"accepted"}
				}
				cs = append(cs, c)
			}
			for which := 0; which <= 1; which++ {
				cs = append(cs, driver.Case{Harness: "verifH_c05_addlemma", Pkg: "internal/sm2ec", Config: "asm", Params: P("which", which), Overrides: ov, MaxUnwind: 3000, TimeoutS: 1200, Portfolio: true})
			}
			// the math/big wrapper sm2/sm2ec/sm2ec.go over the abstract group (purego configuration)
			wov := sm2Overrides()
			wov[driver.Module+"/internal/sm2ec.init#1"] = "verifModel_noinit"
			for _, z := range [][2]int{{0, 0}, {32, 0}, {0, 32}, {1, 0}, {32, 32}} {
				c := driver.Case{Harness: "verifH_c05_wrap_point", Pkg: "sm2/sm2ec", Config: "purego", Params: P("xz", z[0], "yz", z[1]), Overrides: wov, MaxUnwind: 3000, TimeoutS: 900, Solver: "cvc5", Portfolio: true}
				if z[0] < 32 || z[1] < 32 {
					c.MustReach = []string{"oncurve"}
				}
				cs = append(cs, c)
			}
			for _, n := range []int{1, 31, 32, 33, 40} {
				cs = append(cs, driver.Case{Harness: "verifH_c05_wrap_scalar", Pkg: "sm2/sm2ec", Config: "purego", Params: P("n", n), Overrides: wov, MaxUnwind: 3000, TimeoutS: 900, Solver: "cvc5", Portfolio: true})
			}
			return cs
		},
		Functions:   []string{"sm2/sm2ec.(*sm2Curve).IsOnCurve, pointFromAffine, pointToAffine, Add, ScalarMult, ScalarBaseMult, normalizeScalar, Inverse (real math/big code)", "internal/sm2ec.(*SM2P256Point).SetBytes (amd64 and purego Go code), p256OrdAdd, p256Add, p256LessThanP", "internal/sm2ec.boothW5, boothW6", "(*SM2P256Point).ScalarBaseMult, p256BaseMult", "(*SM2P256Point).ScalarMult, p256ScalarMult"},
		Assumptions: []string{"drivers: exact-multiple model of the group (a point is the integer it is a multiple of; kernel contracts incl. their undefined results)", "decoders: field multiplication/squaring/Montgomery conversion uninterpreted", "wrapper: abstract group over coordinate encodings, curve membership opaque; (*big.Int).Mod with symbolic operands uninterpreted; coordinate length classes (xz, yz) in {(0,0),(32,0),(0,32),(1,0),(32,32)} leading zero bytes, results of group operations full length"},
		Bounds:      map[string]string{"quick": "every 32-byte scalar (ScalarBaseMult driver); every byte string of 0/1/32/33/64/65/66 bytes (SetBytes); every pair of reduced operands (add lemmas); wrapper: every coordinate pair in five length classes, every scalar of 1/31/32/33/40 bytes", "thorough": "same"},
		Outside:     []string{"assembly bodies and fiat field arithmetic (that the kernels compute the group law)", "on-curve decisions, square roots, inversion modulo n", "the variable-point ScalarMult driver of the assembly configuration (harness exists, chained lemmas did not converge within 25 min)", "CombinedMult, Double, Unmarshal/UnmarshalCompressed of the wrapper; purego scalar-multiplication drivers"},
		Oracle:      "exact integer multiple modulo the group order",
	})
}
