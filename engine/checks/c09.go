package checks

import "gosym/driver"

func init() {
	register(&driver.Check{
		ID: "C09",
		Cases: func(tier string) []driver.Case {
			var cs []driver.Case
			m := driver.Module + "/internal/sm9/bn256"
			ov := map[string]string{
				m + ".gfpMul":                    "verifModel_gfpMul",
				"(*" + m + ".curvePoint).IsOnCurve": "verifModel_curvePoint_IsOnCurve",
				"(*" + m + ".twistPoint).IsOnCurve": "verifModel_twistPoint_IsOnCurve",
			}
			add := func(h string, p map[string]int, reach ...string) {
				cs = append(cs, driver.Case{Harness: h, Pkg: "internal/sm9/bn256", Config: "purego", Params: p, Overrides: ov, MaxUnwind: 400, TimeoutS: 1200, MustReach: reach})
			}
			for _, n := range []int{0, 31, 32, 33} {
				add("verifH_c09_gfp", P("n", n))
			}
			for which, need := range []int{64, 128, 384} {
				for _, n := range []int{0, need - 1} {
					add("verifH_c09_decode", P("which", which, "n", n))
				}
				add("verifH_c09_decode", P("which", which, "n", need), "accepted")
				add("verifH_c09_decode", P("which", which, "n", need+3), "accepted")
			}
			return cs
		},
		Functions:   []string{"internal/sm9/bn256.(*gfP).Unmarshal, lessThanP, gfpUnmarshal (purego)", "(*G1).Unmarshal, (*G2).Unmarshal, (*GT).Unmarshal"},
		Assumptions: []string{"field multiplication uninterpreted, curve membership opaque (uninterpreted predicates); the field prime is the package constant p2"},
		Bounds:      map[string]string{"quick": "every 32-byte value for gfP; every byte string of the exact and exact+3 length for G1 (64), G2 (128), GT (384), plus short inputs", "thorough": "same"},
		Outside:     []string{"group laws, bilinearity, non-degeneracy, scalar multiplication, Marshal∘Unmarshal identity (field arithmetic)", "compressed encodings (square roots)"},
		Oracle:      "canonical-range predicate",
	})
}
