package checks

import "gosym/driver"

func init() {
	register(&driver.Check{
		ID: "C09",
		Cases: func(tier string) []driver.Case {
			var cs []driver.Case
			m := driver.Module + "/internal/sm9/bn256"
			ov := map[string]string{
				m + ".gfpMul":                    "verifModel_gfpMul",
				m + ".montEncode":                "verifModel_montEncode", // plain-domain model: the conversion is the identity (injective, as the real one)
				m + ".montDecode":                "verifModel_montDecode",
				"(*" + m + ".curvePoint).IsOnCurve": "verifModel_curvePoint_IsOnCurve",
				"(*" + m + ".twistPoint).IsOnCurve": "verifModel_twistPoint_IsOnCurve",
			}
			add := func(h string, p map[string]int, reach ...string) {
				cs = append(cs, driver.Case{Harness: h, Pkg: "internal/sm9/bn256", Config: "purego", Params: p, Overrides: ov, MaxUnwind: 400, TimeoutS: 1200, MustReach: reach})
			}
			for _, n := range []int{0, 31, 32, 33} {
				add("verifH_c09_gfp", P("n", n))
			}
			for which, need := range []int{64, 128, 384} {
				for _, n := range []int{0, need - 1} {
					add("verifH_c09_decode", P("which", which, "n", n))
				}
				add("verifH_c09_decode", P("which", which, "n", need), "accepted")
				add("verifH_c09_decode", P("which", which, "n", need+3), "accepted")
			}
			dl := map[string]string{
				m + ".curvePointAddComplete":        "verifModel_dl_curvePointAddComplete",
				m + ".curvePointDoubleComplete":     "verifModel_dl_curvePointDoubleComplete",
				"(*" + m + ".curvePoint).SetInfinity": "verifModel_dl_SetInfinity",
				m + ".NewCurveGenerator":            "verifModel_dl_NewCurveGenerator",
			}
			for which := 0; which <= 2; which++ {
				cs = append(cs, driver.Case{Harness: "verifH_c09_scalarmult", Pkg: "internal/sm9/bn256", Config: "purego", Params: P("which", which), Overrides: dl, MaxUnwind: 4000, TimeoutS: 1500, Portfolio: true})
			}
			dl2 := map[string]string{
				"(*" + m + ".twistPoint).Add":         "verifModel_dl_twistPoint_Add",
				"(*" + m + ".twistPoint).Double":      "verifModel_dl_twistPoint_Double",
				"(*" + m + ".twistPoint).SetInfinity": "verifModel_dl_twistPoint_SetInfinity",
				m + ".NewTwistGenerator":             "verifModel_dl_NewTwistGenerator",
			}
			for which := 0; which <= 2; which++ {
				cs = append(cs, driver.Case{Harness: "verifH_c09_scalarmult_g2", Pkg: "internal/sm9/bn256", Config: "purego", Params: P("which", which), Overrides: dl2, MaxUnwind: 4000, TimeoutS: 1500, Portfolio: true})
			}
			pov := map[string]string{m + ".miller": "verifModel_miller", m + ".finalExponentiation": "verifModel_finalExponentiation"}
			for which := 0; which <= 3; which++ {
				cs = append(cs, driver.Case{Harness: "verifH_c09_pair_identity", Pkg: "internal/sm9/bn256", Config: "purego", Params: P("which", which), Overrides: pov, MaxUnwind: 4000, TimeoutS: 600, Portfolio: true})
			}
			return cs
		},
		Functions:   []string{"internal/sm9/bn256.(*G1).ScalarMult, (*G1).ScalarBaseMult, (*G2).ScalarMult, (*G2).ScalarBaseMult, generatorTable, pairing (identity arguments), (*curvePointTable).Select, curvePointMovCond (drivers; point formulas replaced)", "internal/sm9/bn256.(*gfP).Unmarshal, lessThanP, gfpUnmarshal (purego)", "(*G1).Unmarshal, (*G2).Unmarshal, (*GT).Unmarshal"},
		Assumptions: []string{"decoders: field multiplication uninterpreted, Montgomery conversion the identity (plain-domain model), curve membership opaque; the field prime is the package constant p2", "scalar multiplication: exact-multiple model (a point is the integer it is a multiple of; complete addition = integer addition, doubling = shift)"},
		Bounds:      map[string]string{"quick": "every 32-byte value for gfP; every byte string of the exact and exact+3 length for G1 (64), G2 (128), GT (384), plus short inputs", "thorough": "same"},
		Outside:     []string{"group laws of the field-level point formulas, GT exponentiation, Miller loop and final exponentiation, bilinearity, non-degeneracy, Marshal∘Unmarshal identity (field arithmetic)", "compressed encodings (square roots)"},
		Oracle:      "canonical-range predicate",
	})
}
