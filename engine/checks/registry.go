// Package checks: the per-property case lists and metadata.
package checks

import "gosym/driver"

var All = map[string]*driver.Check{}

func register(c *driver.Check) { All[c.ID] = c }

func P(kv ...interface{}) map[string]int {
	m := map[string]int{}
	for i := 0; i+1 < len(kv); i += 2 {
		m[kv[i].(string)] = kv[i+1].(int)
	}
	return m
}
