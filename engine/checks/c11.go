package checks

import "gosym/driver"

func init() {
	register(&driver.Check{
		ID: "C11",
		Cases: func(tier string) []driver.Case {
			var cs []driver.Case
			pk := "internal/zuc"
			ov := map[string]string{driver.Module + "/internal/zuc.genKeyword": "verifModel_genKeyword"}
			add := func(h string, p map[string]int) {
				cs = append(cs, driver.Case{Harness: h, Pkg: pk, Config: "purego", Params: p, Overrides: ov})
			}
			grid := []int{0, 1, 3, 4, 5, 127, 128, 129, 255, 256, 257, 300, 383, 384, 385, 511, 512, 513, 640}
			lens := []int{0, 1, 3, 4, 127, 128, 129, 256, 259}
			if tier != "quick" {
				grid = append(grid, 2, 64, 124, 126, 130, 132, 252, 260, 386, 500, 639, 641, 767, 768, 769)
				lens = append(lens, 2, 5, 126, 130, 255, 257, 300, 384, 385)
			}
			for _, bucket := range []int{0, 128, 256, 384} {
				for _, used := range grid {
					g := (used + 127) / 128 * 128
					minSt := 1
					if bucket > 0 {
						minSt = g/bucket + 1
					}
					for _, nst := range uniq([]int{minSt, minSt + 2}) {
						if bucket == 0 && nst != 1 {
							continue
						}
						for _, n := range lens {
							if tier == "quick" && (used+n)%3 == 1 && n > 4 {
								continue
							}
							add("verifH_c11_eea_step", P("bucket", bucket, "used", used, "nstates", nst, "op", 0, "off", 0, "n", n))
						}
						for _, off := range grid {
							if bucket > 0 && off/bucket >= nst && off < used {
								continue // cannot seek backwards past known checkpoints... (off < used always has a checkpoint)
							}
							for _, n := range []int{0, 1, 5, 128, 131} {
								if tier == "quick" && (off+used+n)%4 != 0 {
									continue
								}
								add("verifH_c11_eea_step", P("bucket", bucket, "used", used, "nstates", nst, "op", 1, "off", off, "n", n))
							}
						}
					}
				}
			}
			for _, kl := range []int{0, 15, 16, 17, 32} {
				for _, il := range []int{0, 16, 23, 25} {
					for _, b := range []int{0, 1, 128, 129, 300} {
						add("verifH_c11_eea_new", P("keylen", kl, "ivlen", il, "bucket", b))
					}
				}
			}
			// MACs: every tail class (bytes mod 16 x extra bits), splits, reuse
			type sp struct{ a, b, c int }
			var splits []sp
			for n := 0; n <= 33; n++ {
				splits = append(splits, sp{n, 0, 0})
			}
			splits = append(splits, sp{1, 1, 1}, sp{5, 5, 5}, sp{15, 1, 16}, sp{16, 16, 1}, sp{3, 13, 17}, sp{0, 17, 15}, sp{8, 8, 21})
			for _, s := range splits {
				for _, bits := range []int{0, 1, 4, 7} {
					if tier == "quick" && bits == 4 && (s.a%4) != 1 {
						continue
					}
					add("verifH_c11_eia", P("a", s.a, "b", s.b, "c", s.c, "bits", bits, "prev", 0, "mode", 0))
					for _, ts := range []int{4, 8, 16} {
						add("verifH_c11_eia256", eia256P(s.a, s.b, s.c, bits, ts, 0, 0))
					}
				}
			}
			for mode := 1; mode <= 2; mode++ {
				for _, prev := range []int{1, 5, 15, 16, 21} {
					for _, s := range []sp{{0, 0, 0}, {3, 0, 0}, {7, 9, 1}, {16, 0, 5}} {
						add("verifH_c11_eia", P("a", s.a, "b", s.b, "c", s.c, "bits", 3, "prev", prev, "mode", mode))
						for _, ts := range []int{4, 8, 16} {
							add("verifH_c11_eia256", eia256P(s.a, s.b, s.c, 3, ts, prev, mode))
						}
					}
				}
			}
			return cs
		},
		Functions: []string{"internal/zuc.(*eea).{XORKeyStream,XORKeyStreamAt,seek,reset,appendState}", "internal/zuc.NewCipher/NewCipherWithBucketSize/newZUCState (size checks)", "internal/zuc.genKeyStreamRev32Generic/genKeyStream", "internal/zuc.(*ZUC128Mac).{Write,Sum,checkSum,Finish,Reset}, blockGeneric", "internal/zuc.(*ZUC256Mac).{Write,Sum,checkSum,Finish,Reset}, block256Generic"},
		Assumptions: []string{
			"KS: the ZUC keystream generator is abstracted — a state is (stream identity, word counter), genKeyword returns an uninterpreted word KS(identity,counter) and advances; the correctness of the generator core against GM/T 0001 is not part of this check",
			"seekable cipher: one operation from an arbitrary state satisfying the stated representation invariant (positions/bucket sizes concrete on a boundary grid, data symbolic), invariant re-established: arbitrary histories follow by induction",
			"MAC references: 128-EIA3 (ETSI/SAGE v1.7 3.4) and the ZUC-256 MAC (ZUC-256 v1.1 section 3) written bit by bit over keystream windows",
			"purego build; assembly (asm_amd64.s, eia_asm_amd64.s) outside",
		},
		Bounds: map[string]string{
			"quick":    "cipher: bucket sizes {0,128,256,384}, positions and seek targets on a 19-point boundary grid up to 640, lengths {0,1,3,4,127,128,129,256,259}; MACs: every message of 0..33 bytes x extra bits {0,1,4,7}, 3-way splits, reuse after Reset/Finish, tag sizes 4/8/16",
			"thorough": "34-point position grid up to 769, 18 lengths up to 385",
		},
		Outside: []string{"ZUC core (bitReorganization, F, LFSR, key/IV loading) vs GM/T 0001", "assembly kernels", "positions beyond the grid"},
		Oracle:  "keystream-window definitions of 128-EIA3 and ZUC-256 MAC, harness/internal/zuc/c11.go",
	})
}

// eia256P adds the tail-bit classes of the three checked tags (used by the known-finding predicates)
func eia256P(a, b, c, bits, ts, prev, mode int) map[string]int {
	p := P("a", a, "b", b, "c", c, "bits", bits, "tagsize", ts, "prev", prev, "mode", mode)
	p["tb_mid"] = 8 * ((a + b) % 16)
	p["tb_sum"] = 8 * ((a + b + c) % 16)
	p["tb_fin"] = 8*((a+b+c)%16) + bits
	return p
}
