package checks

import "gosym/driver"

func init() {
	register(&driver.Check{
		ID: "C08",
		Cases: func(tier string) []driver.Case {
			var cs []driver.Case
			for _, n := range []int{0, 1, 33, 64, 65, 66} {
				c := driver.Case{Harness: "verifH_c08_newpub", Pkg: "ecdh", Config: "purego", Params: P("n", n), Overrides: sm2Overrides(), MaxUnwind: 400, TimeoutS: 600, Portfolio: true}
				if n == 65 {
					c.MustReach = []string{"accepted"}
				}
				cs = append(cs, c)
			}
			mov := sm2Overrides()
			mov[driver.Module+"/internal/sm2ec.init#1"] = "verifModel_noinit"
			cs = append(cs, driver.Case{Harness: "verifH_c08_mqv", Pkg: "ecdh", Config: "purego", Params: P(), Overrides: mov, MaxUnwind: 400, TimeoutS: 1200, Portfolio: true, MustReach: []string{"infinity", "finite"}})
			kov := sm2Overrides()
			for _, hc := range [][3]int{{0, 0, 0}, {0, 1, 0}, {0, 2, 1}, {1, 1, 0}, {1, 0, 1}} {
				cs = append(cs, driver.Case{Harness: "verifH_c08_kx_history", Pkg: "sm2", Config: "purego", Params: P("hist", hc[0], "uid", hc[1], "short", hc[2]), Overrides: kov, MaxUnwind: 4000, TimeoutS: 1500, Solver: "cvc5", Portfolio: true, MustReach: []string{"done"}})
			}
			return cs
		},
		Functions:   []string{"sm2.NewKeyExchange, SetPeerParameters, initKeyExchange, (*KeyExchange).ConfirmResponder, mqv, avf, sign, generateSharedKey, CalculateZA, bigIntToBytes (real math/big code; Mul/Mod with symbolic operands uninterpreted)", "ecdh.(*sm2Curve).sm2mqv, sm2avf, NewPublicKey; (*PrivateKey).SM2MQV, PublicKey", "internal/sm2ec.ImplicitSig, p256OrdAdd (real limb code), SetBytes (fiat range checks)"},
		Assumptions: []string{"abstract prime-order group: points are coordinate pairs, base/variable multiplication and addition uninterpreted, the sum's point-at-infinity flag an opaque function of the operands, curve membership opaque", "results of group operations are assumed to be curve points with canonical coordinates", "multiplication modulo n uninterpreted (commutative)"},
		Bounds:      map[string]string{"quick": "ecdh: every valid (s, e, P, R); peer keys: every byte string of 0/1/33/64/65/66 bytes; sm2.KeyExchange: five (history, peer-id form, coordinate length class) cases, every d, rA, PB, RB in the class, key length 16", "thorough": "same"},
		Outside:     []string{"that initiator and responder derive the same point (ring algebra over Z_n; checked only on random real keys in the native twin)", "sm2.KeyExchange responder side, agreement of the sm2 and ecdh implementations (native twins only), confirmation-value algebra"},
		Oracle:      "GB/T 32918.3 shared-point expression as data flow",
	})
}
