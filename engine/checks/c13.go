package checks

import "gosym/driver"

func init() {
	register(&driver.Check{
		ID: "C13",
		Cases: func(tier string) []driver.Case {
			var cs []driver.Case
			add := func(pkg, h string, p map[string]int) {
				cs = append(cs, driver.Case{Harness: h, Pkg: pkg, Config: "purego", Params: p, MaxUnwind: 64, TimeoutS: 1500})
			}
			maxBer := 6
			if tier != "quick" {
				maxBer = 9
			}
			for n := 0; n <= maxBer; n++ {
				add("pkcs7", "verifH_c13_ber", P("n", n))
			}
			return cs
		},
		Functions:   []string{"pkcs7.ber2der/readObject/isIndefiniteTermination/encodeLength"},
		Assumptions: []string{"input = arbitrary byte string of the stated length (all bytes symbolic); every Go run-time panic on a feasible path is a violation; loops carry an unwinding bound derived from the input length"},
		Bounds:      map[string]string{"quick": "BER reader: every byte string of 0..6 bytes", "thorough": "0..9 bytes"},
		Outside:     []string{"parsers built on encoding/asn1 reflection, math/big, encoding/pem"},
		Oracle:      "absence of panics / termination",
	})
}
