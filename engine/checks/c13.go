package checks

import "gosym/driver"

func init() {
	register(&driver.Check{
		ID: "C13",
		Cases: func(tier string) []driver.Case {
			var cs []driver.Case
			add := func(pkg, h string, p map[string]int) {
				cs = append(cs, driver.Case{Harness: h, Pkg: pkg, Config: "purego", Params: p, MaxUnwind: 64, TimeoutS: 1500})
			}
			maxBer := 6
			if tier != "quick" {
				maxBer = 9
			}
			for n := 0; n <= maxBer; n++ {
				add("pkcs7", "verifH_c13_ber", P("n", n))
			}
			for _, bs := range []int{8, 16} {
				for _, ivl := range uniq([]int{0, 1, bs - 1, bs, bs + 1, 2 * bs}) {
					for _, n := range uniq([]int{0, 1, bs - 1, bs, bs + 1, 2 * bs, 2*bs + 3}) {
						add("pkcs", "verifH_c13_cbcdecrypt", P("bs", bs, "ivlen", ivl, "n", n))
					}
				}
				for _, n := range uniq([]int{0, 1, bs - 1, bs, bs + 1, 2 * bs, 2*bs + 3}) {
					add("pkcs", "verifH_c13_ecbdecrypt", P("bs", bs, "n", n))
					add("pkcs", "verifH_c13_cbc_roundtrip", P("bs", bs, "n", n))
				}
			}
			for _, n := range []int{0, 1, 15, 17, 31, 33} { // whole-block inputs run the real SM4 symbolically: too heavy, covered over UF-E in pkcs
				add("cfca", "verifH_c13_cfca_decrypt", P("n", n))
			}
			maxSig := 8
			if tier != "quick" {
				maxSig = 11
			}
			for n := 0; n <= maxSig; n++ {
				add("sm9", "verifH_c13_sm9_parsesig", P("n", n))
			}
			for _, n := range []int{0, 1, 10, 63, 64, 65, 95, 96} {
				add("sm9", "verifH_c13_sm9_decrypt_short", P("n", n))
			}
			for which := 0; which < 6; which++ {
				for n := 0; n <= 3; n++ {
					add("sm9", "verifH_c13_sm9_unmarshal", P("which", which, "n", n))
				}
			}
			// sm2 legacy (non-SM2 curve, math/big) decryption on hostile ciphertexts
			for _, n := range []int{66, 80, 96, 97, 98, 129} {
				for order := 0; order <= 1; order++ {
					cs = append(cs, driver.Case{Harness: "verifH_c13_sm2_legacy_decrypt", Pkg: "sm2", Config: "purego", Params: P("n", n, "fmt", 4, "order", order), Overrides: sm2Overrides(), MaxUnwind: 4000, MaxPaths: 20000, TimeoutS: 900, Solver: "cvc5", Portfolio: true})
				}
			}
			return cs
		},
		Functions:   []string{"sm2.decryptLegacy, bytesToPoint, crypto/elliptic.Unmarshal (real), rawDecrypt", "pkcs7.ber2der/readObject/isIndefiniteTermination/encodeLength", "pkcs.cbcDecrypt/cbcEncrypt, (*ecbBlockCipher).Decrypt (PBES1/PBES2/PKCS#7/PKCS#8 content decryption)", "cfca.DecryptBySM4CBC", "crypto/cipher CBC (real generic code over UF-E)", "padding.pkcs7Padding.Unpad"},
		Assumptions: []string{"input = arbitrary byte string of the stated length (all bytes symbolic); every Go run-time panic on a feasible path is a violation; loops carry an unwinding bound derived from the input length"},
		Bounds:      map[string]string{"quick": "BER reader: every byte string of 0..6 bytes; pkcs CBC/ECB decrypt helpers: block sizes 8/16, IV lengths {0,1,bs-1,bs,bs+1,2bs}, ciphertext lengths {0,1,bs-1,bs,bs+1,2bs,2bs+3} with symbolic contents; cfca.DecryptBySM4CBC on lengths {0,1,15,17,31,33}", "thorough": "BER reader 0..9 bytes"},
		Outside:     []string{"parsers built on encoding/asn1 reflection, math/big, encoding/pem"},
		Oracle:      "absence of panics / termination",
	})
}
