package checks

import "gosym/driver"

func c03Cases(tier string) []driver.Case {
	var cs []driver.Case
	add := func(pkg, h string, p map[string]int) {
		c := driver.Case{Harness: h, Pkg: pkg, Config: "purego", Params: p}
		if h == "verifH_c03_xts" {
			// mul2Generic is summarised by its specification, which verifH_c03_xts_mul2 proves for every tweak
			c.Overrides = map[string]string{driver.Module + "/internal/cipher/xts.mul2Generic": "verifModel_mul2Generic"}
		}
		cs = append(cs, c)
	}
	xp := "internal/cipher/xts"
	for gb := 0; gb < 2; gb++ {
		for _, cnt := range []int{1, 2, 3} {
			add(xp, "verifH_c03_xts_mul2", P("gb", gb, "count", cnt))
		}
		for dir := 0; dir < 2; dir++ {
			concs := []int{0, 2, 4}
			if tier != "quick" {
				concs = []int{0, 2, 4, 8}
			}
			for _, conc := range concs {
				b := conc
				if b == 0 {
					b = 1
				}
				maxN := (2*b+2)*16 + 15
				for n := 16; n <= maxN; n++ {
					if tier == "quick" {
						// every length class around block and batch boundaries
						r := n % 16
						blk := n / 16
						nearBatch := conc > 0 && (blk%conc == 0 || blk%conc == 1 || blk%conc == conc-1)
						if !(r == 0 || r == 1 || r == 15 || r == 8 || (nearBatch && (r == 5 || r == 9))) && !(n <= 48) {
							continue
						}
					}
					for inplace := 0; inplace < 2; inplace++ {
						if tier == "quick" && inplace == 1 && n%16 > 1 && n%16 < 15 {
							continue
						}
						add(xp, "verifH_c03_xts", P("gb", gb, "dir", dir, "conc", conc, "n1", 0, "n", n, "inplace", inplace))
					}
					// tweak carried across calls: a first call of whole blocks
					for _, n1 := range uniq([]int{16, b * 16, (b + 1) * 16}) {
						if tier == "quick" && !(n%16 == 0 || n%16 == 7) {
							continue
						}
						if tier == "quick" && n > (b+1)*16+15 {
							continue
						}
						add(xp, "verifH_c03_xts", P("gb", gb, "dir", dir, "conc", conc, "n1", n1, "n", n, "inplace", 0))
					}
				}
			}
		}
	}
	for dir := 0; dir < 2; dir++ {
		for _, n := range []int{0, 1, 15, 16, 17, 33} {
			for _, dl := range uniq([]int{0, n - 1, n, n + 1}) {
				if dl < 0 {
					continue
				}
				add(xp, "verifH_c03_xts_args", P("dir", dir, "n", n, "dstlen", dl, "tweaklen", 16))
			}
		}
		for _, tl := range []int{0, 8, 15, 17, 32} {
			add(xp, "verifH_c03_xts_args", P("dir", dir, "n", 16, "dstlen", 16, "tweaklen", tl))
		}
	}
	// ---- package cipher: ECB / BC / OFBNLF ----
	cp := "cipher"
	for mode := 0; mode < 3; mode++ {
		for _, bs := range []int{8, 16} {
			for dir := 0; dir < 2; dir++ {
				maxB := 4
				if tier != "quick" {
					maxB = 9
				}
				for n2 := 0; n2 <= maxB; n2++ {
					for n1 := 0; n1+n2 <= maxB; n1++ {
						if tier == "quick" && n1 > 2 {
							continue
						}
						for inplace := 0; inplace < 2; inplace++ {
							add(cp, "verifH_c03_blockmode", P("mode", mode, "bs", bs, "dir", dir, "n1", n1, "n2", n2, "inplace", inplace))
						}
					}
				}
				for _, n := range []int{0, 1, bs - 1, bs, bs + 1, 2 * bs} {
					for _, dl := range uniq([]int{0, n - 1, n, n + 2}) {
						if dl >= 0 {
							add(cp, "verifH_c03_blockmode_args", P("mode", mode, "bs", bs, "dir", dir, "n", n, "dstlen", dl))
						}
					}
				}
			}
		}
	}
	// ---- HCTR ----
	add(cp, "verifH_c03_hctr_double", P())
	if tier == "lemma" {
		cs = append(cs, driver.Case{Harness: "verifH_c03_hctr_mul", Pkg: cp, Config: "purego", Params: P(),
			Overrides: map[string]string{driver.Module + "/cipher.hctrDouble": "verifModel_hctrDouble"}, TimeoutS: 3000})
	}
	for dir := 0; dir < 2; dir++ {
		concs := []int{0, 2}
		if tier != "quick" {
			concs = []int{0, 2, 4}
		}
		for _, conc := range concs {
			b := conc
			if b == 0 {
				b = 1
			}
			maxN := 16 + (2*b+1)*16 + 15
			for n := 16; n <= maxN; n++ {
				r := (n - 16) % 16
				if tier == "quick" && !(r == 0 || r == 8 || r == 1 || r == 12 || r == 15 || n < 40) {
					continue
				}
				for inplace := 0; inplace < 2; inplace++ {
					if tier == "quick" && inplace == 1 && r != 0 && r != 8 {
						continue
					}
					c := driver.Case{Harness: "verifH_c03_hctr", Pkg: cp, Config: "purego",
						Params:    P("dir", dir, "conc", conc, "n", n, "inplace", inplace, "tail", r),
						Overrides: map[string]string{"(*" + driver.Module + "/cipher.hctr).mul": "verifModel_hctr_mul",
							driver.Module + "/cipher.hctrDouble": "verifModel_hctrDouble"}}
					cs = append(cs, c)
				}
			}
		}
	}
	// ---- asm-wrappers configuration: internal/sm4 CTR / CBC / ECB around the kernels ----
	sp := "internal/sm4"
	sm4ov := map[string]string{
		driver.Module + "/internal/sm4.encryptBlockGo":  "verifModel_encryptBlockGo",
		"(*" + driver.Module + "/internal/sm4.ctr).genCtr": "verifModel_genCtr",
	}
	addA := func(h string, p map[string]int, ov map[string]string) {
		cs = append(cs, driver.Case{Harness: h, Pkg: sp, Config: "asm", Params: p, Overrides: ov})
	}
	for tier := 0; tier < 3; tier++ {
		bb := 4
		if tier == 2 {
			bb = 8
		}
		for st := 0; st < bb; st++ {
			addA("verifH_c03_genctr", P("tier", tier, "start", 16*st), map[string]string{driver.Module + "/internal/sm4.encryptBlockGo": "verifModel_encryptBlockGo"})
		}
		for single := 0; single < 2; single++ {
			// CTR partitions around the 512-byte buffer and the batch size
			type part struct{ a, b, c int }
			parts := []part{{0, 0, 1}, {1, 0, 15}, {15, 1, 1}, {16, 16, 16}, {17, 0, 0}, {5, 64, 3}, {100, 0, 0}, {511, 1, 1}, {512, 0, 17}, {497, 16, 31}, {3, 520, 10}, {600, 0, 0}, {300, 300, 0}}
			if tier != 0 && tier != 2 && single == 1 {
				parts = parts[:6]
			}
			if tier == 0 || tier == 1 || tier == 2 {
				for _, pt := range parts {
					if tier == 1 && (pt.a+pt.b+pt.c) > 200 {
						continue // AVX differs from SSE only inside the kernel
					}
					for inplace := 0; inplace < 2; inplace++ {
						if inplace == 1 && pt.a+pt.b+pt.c > 120 {
							continue
						}
						addA("verifH_c03_ctr", P("tier", tier, "single", single, "n1", pt.a, "n2", pt.b, "n3", pt.c, "inplace", inplace), sm4ov)
					}
				}
			}
			if tier == 1 {
				continue
			}
			for dir := 0; dir < 2; dir++ {
				for n1 := 1; n1 <= 3; n1++ {
					for n2 := 1; n2 <= 9; n2 += 4 {
						for inplace := 0; inplace < 2; inplace++ {
							for setiv := 0; setiv < 2; setiv++ {
								addA("verifH_c03_cbc", P("tier", tier, "single", single, "dir", dir, "n1", n1, "n2", n2, "inplace", inplace, "setiv", setiv), sm4ov)
							}
						}
					}
				}
			}
		}
		for dir := 0; dir < 2; dir++ {
			for _, n := range []int{0, 1, 3, 4, 5, 8, 9, 17} {
				for inplace := 0; inplace < 2; inplace++ {
					addA("verifH_c03_ecb_asm", P("tier", tier, "dir", dir, "n", n, "inplace", inplace), sm4ov)
				}
			}
		}
	}
	return cs
}

func init() {
	register(&driver.Check{
		ID:    "C03",
		Cases: c03Cases,
		Functions: []string{"internal/cipher/xts.NewXTSEncrypter/NewXTSDecrypter", "(*xtsEncrypter|*xtsDecrypter).CryptBlocks (single-block and concurrentBlocks batch paths)", "xts.mul2Generic, mul2, doubleTweaks (purego)"},
		Assumptions: []string{
			"UF-E: block cipher = uninterpreted keyed permutation (E/D inverse by rewriting + instance axioms); keys, tweak, data symbolic",
			"concurrentBlocks contract (from sm4CipherAsm): EncryptBlocks/DecryptBlocks process exactly Concurrency() blocks and panic on shorter buffers",
			"reference: IEEE 1619-2007 XTS with ciphertext stealing and GB/T 17964-2021 bit order, multiplication by x written bit by bit (harness/internal/cipher/xts/c03.go)",
			"purego build: mul2/doubleTweaks are the Go implementations; the amd64 assembly (xts_amd64.s, internal/sm4/xts_amd64.s) is outside the claim",
		},
		Bounds: map[string]string{
			"quick":    "XTS: IEEE and GB variants, encrypt and decrypt, Concurrency in {none,2,4}, byte lengths 16..(2*batch+2)*16+15 restricted to the residues {0,1,8,15} (all residues up to 48 bytes and around batch boundaries), in place and disjoint with canary, optional first call of 1/batch/batch+1 blocks carrying the tweak",
			"thorough": "every byte length 16..(2*batch+2)*16+15, Concurrency in {none,2,4,8}, all first-call variants",
		},
		Outside: []string{"assembly XTS kernels (internal/sm4/xts_amd64.s etc.: the amd64 overrun named in the property is invisible to go/ssa)", "data units longer than (2*batch+2) blocks+15 bytes"},
		Oracle:  "IEEE 1619 / GB/T 17964 XTS written in the harness",
	})
}
