package checks

import "gosym/driver"

// sm2Overrides: abstract field / group / scalar-field model (harness/internal/sm2ec, bigmod, sm3)
func sm2Overrides() map[string]string {
	m := driver.Module
	return map[string]string{
		"(*" + m + "/internal/sm2ec.SM2P256Point).ScalarBaseMult": "verifModel_ScalarBaseMult",
		"(*" + m + "/internal/sm2ec.SM2P256Point).ScalarMult":     "verifModel_ScalarMult",
		"(*" + m + "/internal/sm2ec.SM2P256Point).Add":            "verifModel_Add",
		"(*" + m + "/internal/sm2ec.SM2P256Point).bytesX":         "verifModel_bytesX",
		"(*" + m + "/internal/sm2ec.SM2P256Point).bytes":          "verifModel_bytes",
		"(*" + m + "/internal/sm2ec.SM2P256Point).bytesCompressed": "verifModel_bytesCompressed",
		m + "/internal/sm2ec.sm2p256CheckOnCurve":                 "verifModel_sm2p256CheckOnCurve",
		m + "/internal/sm2ec.sm2p256Sqrt":                         "verifModel_sm2p256Sqrt",
		m + "/internal/sm2ec.P256OrdInverse":                      "verifModel_P256OrdInverse",
		m + "/internal/sm2ec.P256OrdMul":                          "verifModel_P256OrdMul",
		m + "/internal/sm2ec/fiat.sm2p256ToMontgomery":            "verifModel_sm2p256ToMontgomery",
		m + "/internal/sm2ec/fiat.sm2p256FromMontgomery":          "verifModel_sm2p256FromMontgomery",
		m + "/internal/sm2ec/fiat.sm2p256SetOne":                  "verifModel_sm2p256SetOne",
		m + "/internal/sm2ec/fiat.sm2p256Mul":                     "verifModel_sm2p256Mul",
		m + "/internal/sm2ec/fiat.sm2p256Square":                  "verifModel_sm2p256Square",
		"(*" + m + "/internal/bigmod.Nat).Mul":                    "verifModel_Nat_Mul",
		m + "/internal/bigmod.bitLen":                             "verifModel_bitLen",
		m + "/internal/sm3.blockGeneric":                          "verifModel_blockGeneric",
	}
}

// sm2OverridesAbs: additionally abstracts modular addition/subtraction (data-flow harnesses)
func sm2OverridesAbs() map[string]string {
	m := sm2Overrides()
	m["(*"+driver.Module+"/internal/bigmod.Nat).Add"] = "verifModel_Nat_Add"
	m["(*"+driver.Module+"/internal/bigmod.Nat).Sub"] = "verifModel_Nat_Sub"
	return m
}

// sm9Overrides: abstract SM9 groups (harness/internal/sm9/bn256/models_purego.go)
func sm9Overrides() map[string]string {
	m := driver.Module + "/internal/sm9/bn256"
	return map[string]string{
		m + ".gfpMul":      "verifModel_gfpMul",
		m + ".montEncode":  "verifModel_montEncode",
		m + ".montDecode":  "verifModel_montDecode",
		"(*" + m + ".curvePoint).IsOnCurve": "verifModel_curvePoint_IsOnCurve",
		"(*" + m + ".twistPoint).IsOnCurve": "verifModel_twistPoint_IsOnCurve",
		"(*" + m + ".G1).ScalarBaseMult":    "verifModel_G1_ScalarBaseMult",
		"(*" + m + ".G1).ScalarMult":        "verifModel_G1_ScalarMult",
		"(*" + m + ".G1).Add":               "verifModel_G1_Add",
		"(*" + m + ".G1).fillBytes":         "verifModel_G1_fillBytes",
		"(*" + m + ".G2).ScalarBaseMult":    "verifModel_G2_ScalarBaseMult",
		"(*" + m + ".G2).ScalarMult":        "verifModel_G2_ScalarMult",
		"(*" + m + ".G2).Add":               "verifModel_G2_Add",
		"(*" + m + ".G2).fillBytes":         "verifModel_G2_fillBytes",
		m + ".Pair":                         "verifModel_Pair",
		"(*" + m + ".GT).ScalarMult":        "verifModel_GT_ScalarMult",
		"(*" + m + ".GT).Marshal":           "verifModel_GT_Marshal",
		driver.Module + "/internal/bigmod.bitLen": "verifModel_bitLen",
	}
}

func init() {
	register(&driver.Check{
		ID: "C12",
		Cases: func(tier string) []driver.Case {
			var cs []driver.Case
			add := func(pkg, h string, p map[string]int, reach ...string) {
				cs = append(cs, driver.Case{Harness: h, Pkg: pkg, Config: "purego", Params: p, Overrides: sm2Overrides(), MaxUnwind: 200, TimeoutS: 1200, MustReach: reach})
			}
			cs = append(cs, driver.Case{Harness: "verifH_bigmod_bitlen", Pkg: "internal/bigmod", Config: "purego", Params: P(), MaxUnwind: 100})
			for chk := 0; chk < 2; chk++ {
				for failAt := 1; failAt <= 4; failAt++ {
					for mode := 1; mode <= 2; mode++ {
						if failAt == 1 {
							add("sm2", "verifH_c12_randompoint", P("failat", failAt, "mode", mode, "checknm1", chk), "failed")
						} else {
							add("sm2", "verifH_c12_randompoint", P("failat", failAt, "mode", mode, "checknm1", chk), "failed", "ok")
						}
					}
				}
			}
			for failAt := 1; failAt <= 3; failAt++ {
				for mode := 1; mode <= 3; mode++ {
					reach := []string{"failed"}
					if failAt > 1 || mode == 3 {
						reach = []string{"failed", "ok"}
					}
					cs = append(cs, driver.Case{Harness: "verifH_c12_ecdh_genkey", Pkg: "ecdh", Config: "purego", Params: P("failat", failAt, "mode", mode), MaxUnwind: 200, TimeoutS: 1200, MustReach: reach})
				}
			}
			// sm2 randFieldElement (math/big; sm2.KeyExchange and the legacy paths)
			for failAt := 1; failAt <= 3; failAt++ {
				for mode := 1; mode <= 2; mode++ {
					reach := []string{"failed"}
					if failAt > 1 {
						reach = []string{"failed", "ok"}
					}
					cs = append(cs, driver.Case{Harness: "verifH_c12_randfield", Pkg: "sm2", Config: "purego", Params: P("failat", failAt, "mode", mode), Overrides: sm2Overrides(), MaxUnwind: 400, MaxPaths: 4000, TimeoutS: 1200, MustReach: reach})
				}
			}
			// SM9: ephemeral scalars and master-key generation (short reads, errors, EOF at any call)
			for failAt := 1; failAt <= 3; failAt++ {
				for mode := 1; mode <= 3; mode++ {
					reach := []string{"failed"}
					if failAt > 1 || mode == 3 {
						reach = []string{"failed", "ok"}
					}
					cs = append(cs, driver.Case{Harness: "verifH_c12_sm9_randomscalar", Pkg: "internal/sm9", Config: "purego", Params: P("failat", failAt, "mode", mode), Overrides: sm9Overrides(), MaxUnwind: 200, MaxPaths: 400, TimeoutS: 1200, MustReach: reach})
					for which := 0; which <= 1; which++ {
						cs = append(cs, driver.Case{Harness: "verifH_c12_sm9_genmaster", Pkg: "internal/sm9", Config: "purego", Params: P("failat", failAt, "mode", mode, "which", which), Overrides: sm9Overrides(), MaxUnwind: 200, MaxPaths: 400, TimeoutS: 1200, MustReach: reach})
					}
				}
			}
			return cs
		},
		Functions:   []string{"sm2.randFieldElement (real math/big SetBytes/Sign/Cmp)", "internal/sm9.randomScalar, GenerateSignMasterKey, GenerateEncryptMasterKey, NewSignMasterPrivateKey, NewEncryptMasterPrivateKey, isLess", "ecdh.(*sm2Curve).GenerateKey/NewPrivateKey, isLess", "internal/randutil.MaybeReadByte (reads one byte or none)", "sm2.randomPoint", "internal/bigmod.(*Nat).{SetBytes,IsZero,Equal,Bytes,...} (real limb code)", "io.ReadFull"},
		Assumptions: []string{"scripted random source: fresh symbolic 32-byte blocks; at a chosen call index it returns an error or half a block followed by EOF", "group/field arithmetic abstract (uninterpreted functions over coordinates; harness/internal/sm2ec)"},
		Bounds:      map[string]string{"quick": "up to 3 blocks before the source fails", "thorough": "same"},
		Outside:     []string{"uniformity itself (follows from exact-block + rejection)"},
		Oracle:      "block-exactness / rejection sampling",
	})
}
