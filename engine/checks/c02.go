package checks

import "gosym/driver"

func init() {
	register(&driver.Check{
		ID: "C02",
		Cases: func(tier string) []driver.Case {
			var cs []driver.Case
			pk := "internal/sm4"
			tov := map[string]string{driver.Module + "/internal/sm4.t": "verifModel_t", driver.Module + "/internal/sm4.precompute_t": "verifModel_t", driver.Module + "/internal/sm4.t2": "verifModel_t2"}
			cs = append(cs, driver.Case{Harness: "verifH_c02_tables", Pkg: pk, Config: "purego", Params: P()})
			if tier != "quick" {
				cs = append(cs, driver.Case{Harness: "verifH_c02_t", Pkg: pk, Config: "purego", Params: P()})
			}
			cs = append(cs, driver.Case{Harness: "verifH_c02_consts", Pkg: pk, Config: "purego", Params: P()})
			for ip := 0; ip < 2; ip++ {
				cs = append(cs, driver.Case{Harness: "verifH_c02_enc", Pkg: pk, Config: "purego", Params: P("inplace", ip), Overrides: tov})
			}
			cs = append(cs, driver.Case{Harness: "verifH_c02_expand", Pkg: pk, Config: "purego", Params: P(), Overrides: tov})
			for kl := 0; kl <= 64; kl++ {
				for _, cfg := range []string{"purego", "asm"} {
					var ov map[string]string
					if cfg == "asm" {
						ov = map[string]string{driver.Module + "/internal/sm4.encryptBlockGo": "verifModel_encryptBlockGo"}
					}
					if kl == 16 {
						for _, sl := range []int{0, 15, 16, 17} {
							for _, dl := range []int{0, 15, 16, 17} {
								cs = append(cs, driver.Case{Harness: "verifH_c02_api", Pkg: pk, Config: cfg, Params: P("keylen", kl, "srclen", sl, "dstlen", dl, "gfmul", (sl+dl)%2), Overrides: ov})
							}
						}
					} else {
						cs = append(cs, driver.Case{Harness: "verifH_c02_api", Pkg: pk, Config: cfg, Params: P("keylen", kl, "srclen", 16, "dstlen", 16, "gfmul", kl%2), Overrides: ov})
					}
				}
			}
			aov := map[string]string{driver.Module + "/internal/sm4.encryptBlockGo": "verifModel_encryptBlockGo"}
			for tr := 0; tr < 3; tr++ {
				for single := 0; single < 2; single++ {
					for ip := 0; ip < 2; ip++ {
						cs = append(cs, driver.Case{Harness: "verifH_c02_wrap_block", Pkg: pk, Config: "asm", Params: P("tier", tr, "single", single, "inplace", ip), Overrides: aov})
					}
				}
				for nb := 1; nb <= 2; nb++ {
					for ip := 0; ip < 2; ip++ {
						for dec := 0; dec < 2; dec++ {
							cs = append(cs, driver.Case{Harness: "verifH_c02_wrap_blocks", Pkg: pk, Config: "asm", Params: P("tier", tr, "batches", nb, "inplace", ip, "dec", dec), Overrides: aov})
						}
					}
				}
			}
			return cs
		},
		Functions:   []string{"internal/sm4.{t,t2,precompute_t,encryptBlockGo,expandKeyGo}", "internal/sm4.NewCipher/newCipher/newCipherGeneric", "internal/sm4.(*sm4Cipher|*sm4CipherAsm).{Encrypt,Decrypt,EncryptBlocks,DecryptBlocks,Concurrency}", "sm4 tables sbox_t0..3, fk, ck"},
		Assumptions: []string{
			"S-box: the repository's 256-entry table is taken as the standard's (anchored by the standard's known-answer vectors, incl. the 1,000,000-iteration vector, in the repository's tests); the precomputed tables sbox_t0..3 are proved consistent with it for every input word",
			"round structure and key schedule are compared with GB/T 32907 with T and T' uninterpreted (justified by the word-level lemma verifH_c02_t); FK and CK are recomputed from the standard's formula",
			"asm tiers: kernels (encryptBlockAsm, encryptBlocksAsm, expandKeyAsm) are contract models over a keyed permutation; the Go dispatch and argument checks around them are the real code on the SSE, AVX and AVX2 tiers with and without the single-block AES-NI path",
		},
		Bounds:  map[string]string{"quick": "every 32-bit word for T/T'/tables; every key and block for the round structure and key schedule; key lengths 0..64; one and two batches on each tier", "thorough": "same"},
		Outside: []string{"bodies of asm_amd64.s / aesni_macros_amd64.s (lane correctness inside the kernels)", "the S-box table's individual entries versus the printed standard"},
		Oracle:  "GB/T 32907-2016 sections 6 and 7 written in harness/internal/sm4/c02.go",
	})
}
