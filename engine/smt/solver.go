package smt

import (
	"bufio"
	"fmt"
	"io"
	"math/big"
	"os/exec"
	"strings"
	"time"
)

type Result int

const (
	Unsat Result = iota
	Sat
	Unknown
)

func (r Result) String() string { return [...]string{"unsat", "sat", "unknown"}[r] }

// Solver wraps one long-lived SMT solver process.
type Solver struct {
	Kind      string
	cmd       *exec.Cmd
	in        io.WriteCloser
	out       *bufio.Reader
	defined   map[int]bool
	declV     map[string]bool
	declF     map[string]bool
	buf       strings.Builder
	Stats     *Stats
	Log       io.Writer
	TimeoutMs int
	killed    bool
	dead      bool
}

type Stats struct {
	Queries int
	Sat     int
	Unsat   int
	Unknown int
	Errors  int
	Time    time.Duration
	MaxTime time.Duration
}

func (s *Stats) Add(o *Stats) {
	s.Queries += o.Queries
	s.Sat += o.Sat
	s.Unsat += o.Unsat
	s.Unknown += o.Unknown
	s.Errors += o.Errors
	s.Time += o.Time
	if o.MaxTime > s.MaxTime {
		s.MaxTime = o.MaxTime
	}
}

func solverArgs(kind string, timeoutMs int) (string, []string) {
	switch kind {
	case "z3":
		return "/usr/bin/z3", []string{"-in", "-smt2", fmt.Sprintf("-t:%d", timeoutMs)}
	case "z3-new":
		return "z3-new", []string{"-in", "-smt2", fmt.Sprintf("-t:%d", timeoutMs)}
	case "cvc5":
		return "cvc5", []string{"--incremental", "--lang", "smt2", "--produce-models", fmt.Sprintf("--tlimit-per=%d", timeoutMs)}
	}
	panic("unknown solver " + kind)
}

func StartSolver(kind string, timeoutMs int) (*Solver, error) {
	bin, args := solverArgs(kind, timeoutMs)
	cmd := exec.Command(bin, args...)
	in, err := cmd.StdinPipe()
	if err != nil {
		return nil, err
	}
	outp, err := cmd.StdoutPipe()
	if err != nil {
		return nil, err
	}
	cmd.Stderr = cmd.Stdout
	if err := cmd.Start(); err != nil {
		return nil, err
	}
	s := &Solver{Kind: kind, cmd: cmd, in: in, out: bufio.NewReaderSize(outp, 1<<20), Stats: &Stats{}, TimeoutMs: timeoutMs}
	s.Reset()
	return s, nil
}

func (s *Solver) Close() {
	if s.dead {
		return
	}
	s.dead = true
	io.WriteString(s.in, "(exit)\n")
	s.in.Close()
	done := make(chan struct{})
	go func() { s.cmd.Wait(); close(done) }()
	select {
	case <-done:
	case <-time.After(2 * time.Second):
		s.cmd.Process.Kill()
	}
}

// Reset clears all solver state (new term context).
func (s *Solver) Reset() {
	s.defined = map[int]bool{}
	s.declV = map[string]bool{}
	s.declF = map[string]bool{}
	s.send("(reset)\n(set-option :produce-models true)\n")
	if s.Kind != "cvc5" {
		s.send("(set-option :pp.bv_literals true)\n")
	} else {
		s.send("(set-logic ALL)\n")
	}
}

func (s *Solver) send(str string) {
	if s.Log != nil {
		io.WriteString(s.Log, str)
	}
	io.WriteString(s.in, str)
}

func sortStr(w int) string {
	if w == 0 {
		return "Bool"
	}
	return fmt.Sprintf("(_ BitVec %d)", w)
}

func symName(n string) string { return "|" + n + "|" }

func constStr(t *Term) string {
	if t.W == 0 {
		if t.Val == 1 {
			return "true"
		}
		return "false"
	}
	if t.W%4 == 0 {
		var h string
		if t.W > 64 {
			h = t.Big.Text(16)
		} else {
			h = fmt.Sprintf("%x", t.Val)
		}
		return "#x" + strings.Repeat("0", t.W/4-len(h)) + h
	}
	var b string
	if t.W > 64 {
		b = t.Big.Text(2)
	} else {
		b = fmt.Sprintf("%b", t.Val)
	}
	return "#b" + strings.Repeat("0", t.W-len(b)) + b
}

func (s *Solver) ref(t *Term) string {
	switch t.Op {
	case OpConst:
		return constStr(t)
	case OpVar:
		return symName(t.Name)
	}
	return fmt.Sprintf("t%d", t.ID)
}

// define emits declarations/definitions for t's DAG into s.buf.
func (s *Solver) define(c *Ctx, root *Term) {
	// iterative post-order
	type fr struct {
		t *Term
		i int
	}
	stack := []fr{{root, 0}}
	for len(stack) > 0 {
		f := &stack[len(stack)-1]
		t := f.t
		if t.Op == OpConst || s.defined[t.ID] {
			stack = stack[:len(stack)-1]
			continue
		}
		if t.Op == OpVar {
			if !s.declV[t.Name] {
				s.declV[t.Name] = true
				fmt.Fprintf(&s.buf, "(declare-const %s %s)\n", symName(t.Name), sortStr(t.W))
			}
			s.defined[t.ID] = true
			stack = stack[:len(stack)-1]
			continue
		}
		if f.i < len(t.Args) {
			a := t.Args[f.i]
			f.i++
			stack = append(stack, fr{a, 0})
			continue
		}
		// all args defined
		if t.Op == OpUF && !s.declF[t.Name] {
			s.declF[t.Name] = true
			sig := c.UFs[t.Name]
			fmt.Fprintf(&s.buf, "(declare-fun %s (", symName(t.Name))
			for i, w := range sig.In {
				if i > 0 {
					s.buf.WriteByte(' ')
				}
				s.buf.WriteString(sortStr(w))
			}
			fmt.Fprintf(&s.buf, ") %s)\n", sortStr(sig.Out))
		}
		fmt.Fprintf(&s.buf, "(define-fun t%d () %s ", t.ID, sortStr(t.W))
		switch t.Op {
		case OpUF:
			if len(t.Args) == 0 {
				s.buf.WriteString(symName(t.Name))
			} else {
				s.buf.WriteString("(" + symName(t.Name))
				for _, a := range t.Args {
					s.buf.WriteByte(' ')
					s.buf.WriteString(s.ref(a))
				}
				s.buf.WriteByte(')')
			}
		case OpExtract:
			fmt.Fprintf(&s.buf, "((_ extract %d %d) %s)", t.Hi, t.Lo, s.ref(t.Args[0]))
		case OpSExt:
			fmt.Fprintf(&s.buf, "((_ sign_extend %d) %s)", t.Hi, s.ref(t.Args[0]))
		case OpConcat:
			// binary nesting
			n := len(t.Args)
			for i := 0; i < n-1; i++ {
				s.buf.WriteString("(concat ")
				s.buf.WriteString(s.ref(t.Args[i]))
				s.buf.WriteByte(' ')
			}
			s.buf.WriteString(s.ref(t.Args[n-1]))
			for i := 0; i < n-1; i++ {
				s.buf.WriteByte(')')
			}
		case OpAdd:
			n := len(t.Args)
			for i := 0; i < n-1; i++ {
				s.buf.WriteString("(bvadd ")
				s.buf.WriteString(s.ref(t.Args[i]))
				s.buf.WriteByte(' ')
			}
			s.buf.WriteString(s.ref(t.Args[n-1]))
			for i := 0; i < n-1; i++ {
				s.buf.WriteByte(')')
			}
		case OpBvXor:
			n := len(t.Args)
			for i := 0; i < n-1; i++ {
				s.buf.WriteString("(bvxor ")
				s.buf.WriteString(s.ref(t.Args[i]))
				s.buf.WriteByte(' ')
			}
			s.buf.WriteString(s.ref(t.Args[n-1]))
			for i := 0; i < n-1; i++ {
				s.buf.WriteByte(')')
			}
		default:
			s.buf.WriteString("(" + opNames[t.Op])
			for _, a := range t.Args {
				s.buf.WriteByte(' ')
				s.buf.WriteString(s.ref(a))
			}
			s.buf.WriteByte(')')
		}
		s.buf.WriteString(")\n")
		s.defined[t.ID] = true
		stack = stack[:len(stack)-1]
	}
}

// inverseAxioms returns instance axioms D(k,E(k,x)) = x for every application of a UF with a registered inverse.
func inverseAxioms(c *Ctx, roots []*Term) []*Term {
	if len(c.Inverse) == 0 {
		return nil
	}
	seen := map[int]bool{}
	var ax []*Term
	var walk func(t *Term)
	walk = func(t *Term) {
		if seen[t.ID] {
			return
		}
		seen[t.ID] = true
		for _, a := range t.Args {
			walk(a)
		}
		if t.Op == OpUF {
			if inv, ok := c.Inverse[t.Name]; ok {
				n := len(t.Args)
				args := append(append([]*Term(nil), t.Args[:n-1]...), t)
				// build without the rewriting shortcut
				app := c.mk(&Term{Op: OpUF, W: t.Args[n-1].W, Name: inv, Args: args})
				if _, ok := c.UFs[inv]; !ok {
					in := make([]int, len(args))
					for i, a := range args {
						in[i] = a.W
					}
					c.UFs[inv] = &UFSig{Name: inv, In: in, Out: t.Args[n-1].W}
				}
				ax = append(ax, c.mk(&Term{Op: OpEq, W: 0, Args: []*Term{app, t.Args[n-1]}}))
			}
		}
	}
	for _, r := range roots {
		walk(r)
	}
	return ax
}

type Model map[string]*big.Int

// SetTimeout changes the per-query budget (z3 only; cvc5's is fixed at start).
func (s *Solver) SetTimeout(ms int) {
	if s.dead || ms <= 0 || ms == s.TimeoutMs {
		return
	}
	if s.Kind == "z3" || s.Kind == "z3-new" {
		s.send(fmt.Sprintf("(set-option :timeout %d)\n", ms))
		s.TimeoutMs = ms
	}
}

// Check asks whether the conjunction of assertions is satisfiable. If sat and vars is non-empty, the values of vars are returned.
// restart replaces a dead solver process by a fresh one (all definitions are re-sent on demand).
func (s *Solver) restart() error {
	bin, args := solverArgs(s.Kind, s.TimeoutMs)
	cmd := exec.Command(bin, args...)
	in, err := cmd.StdinPipe()
	if err != nil {
		return err
	}
	outp, err := cmd.StdoutPipe()
	if err != nil {
		return err
	}
	cmd.Stderr = cmd.Stdout
	if err := cmd.Start(); err != nil {
		return err
	}
	s.cmd, s.in, s.out, s.dead = cmd, in, bufio.NewReaderSize(outp, 1<<20), false
	s.Reset()
	return nil
}

func (s *Solver) Check(c *Ctx, assertions []*Term, vars []*Term) (Result, Model, error) {
	if s.dead {
		if s.killed {
			s.killed = false
			if err := s.restart(); err != nil {
				return Unknown, nil, fmt.Errorf("solver dead: %v", err)
			}
		} else {
			return Unknown, nil, fmt.Errorf("solver dead")
		}
	}
	// watchdog: a solver that ignores its own time limit is killed (the query counts as undecided)
	// and restarted for the next query
	proc := s.cmd.Process
	budget := time.Duration(s.TimeoutMs)*time.Millisecond*3/2 + 15*time.Second
	wd := time.AfterFunc(budget, func() {
		s.killed = true
		proc.Kill()
	})
	defer wd.Stop()
	start := time.Now()
	s.buf.Reset()
	all := append([]*Term(nil), assertions...)
	all = append(all, inverseAxioms(c, assertions)...)
	for _, a := range all {
		s.define(c, a)
	}
	for _, v := range vars {
		s.define(c, v)
	}
	s.buf.WriteString("(push 1)\n")
	for _, a := range all {
		fmt.Fprintf(&s.buf, "(assert %s)\n", s.ref(a))
	}
	s.buf.WriteString("(check-sat)\n(echo \"<<END>>\")\n")
	s.send(s.buf.String())
	lines, err := s.readUntilEnd()
	res := Unknown
	var model Model
	if err == nil {
		for _, l := range lines {
			l = strings.TrimSpace(l)
			switch {
			case l == "sat":
				res = Sat
			case l == "unsat":
				res = Unsat
			case strings.Contains(l, "(error"):
				err = fmt.Errorf("solver error: %s", l)
			}
		}
	}
	if err != nil {
		res = Unknown
		s.Stats.Errors++
	}
	if res == Sat && len(vars) > 0 {
		var sb strings.Builder
		sb.WriteString("(get-value (")
		for _, v := range vars {
			sb.WriteString(s.ref(v))
			sb.WriteByte(' ')
		}
		sb.WriteString("))\n(echo \"<<END>>\")\n")
		s.send(sb.String())
		lines, err2 := s.readUntilEnd()
		if err2 != nil {
			err = err2
		} else {
			vals, perr := parseValues(strings.Join(lines, "\n"))
			if perr != nil || len(vals) != len(vars) {
				err = fmt.Errorf("cannot parse model (%v): %s", perr, strings.Join(lines, " "))
			} else {
				model = Model{}
				for i, v := range vars {
					model[v.Name] = vals[i]
				}
			}
		}
	}
	if !s.dead {
		s.send("(pop 1)\n")
	}
	d := time.Since(start)
	s.Stats.Queries++
	s.Stats.Time += d
	if d > s.Stats.MaxTime {
		s.Stats.MaxTime = d
	}
	switch res {
	case Sat:
		s.Stats.Sat++
	case Unsat:
		s.Stats.Unsat++
	default:
		s.Stats.Unknown++
	}
	return res, model, err
}

func (s *Solver) readUntilEnd() ([]string, error) {
	var lines []string
	for {
		l, err := s.out.ReadString('\n')
		if strings.Contains(l, "<<END>>") {
			return lines, nil
		}
		if l != "" {
			lines = append(lines, strings.TrimRight(l, "\n"))
		}
		if err != nil {
			s.dead = true
			return lines, fmt.Errorf("solver closed: %v (%s)", err, strings.Join(lines, " "))
		}
	}
}

// parseValues parses "((name val) (name val) ...)" returning the values in order.
func parseValues(src string) ([]*big.Int, error) {
	toks := tokenize(src)
	pos := 0
	var vals []*big.Int
	if pos >= len(toks) || toks[pos] != "(" {
		return nil, fmt.Errorf("expected (")
	}
	pos++
	for pos < len(toks) && toks[pos] == "(" {
		pos++
		// skip the name expression (could be a symbol or nested)
		depth := 0
		for {
			if pos >= len(toks) {
				return nil, fmt.Errorf("eof")
			}
			if toks[pos] == "(" {
				depth++
			} else if toks[pos] == ")" {
				depth--
			}
			pos++
			if depth == 0 {
				break
			}
		}
		// value
		if pos >= len(toks) {
			return nil, fmt.Errorf("eof")
		}
		tk := toks[pos]
		var v *big.Int
		switch {
		case tk == "true":
			v = big.NewInt(1)
			pos++
		case tk == "false":
			v = big.NewInt(0)
			pos++
		case strings.HasPrefix(tk, "#x"):
			v, _ = new(big.Int).SetString(tk[2:], 16)
			pos++
		case strings.HasPrefix(tk, "#b"):
			v, _ = new(big.Int).SetString(tk[2:], 2)
			pos++
		case tk == "(":
			// (_ bvN w)
			if pos+4 < len(toks) && toks[pos+1] == "_" && strings.HasPrefix(toks[pos+2], "bv") {
				v, _ = new(big.Int).SetString(toks[pos+2][2:], 10)
				pos += 5
			} else {
				return nil, fmt.Errorf("unexpected value")
			}
		default:
			return nil, fmt.Errorf("unexpected token %q", tk)
		}
		if v == nil {
			return nil, fmt.Errorf("bad value %q", tk)
		}
		vals = append(vals, v)
		if pos >= len(toks) || toks[pos] != ")" {
			return nil, fmt.Errorf("expected )")
		}
		pos++
	}
	return vals, nil
}

func tokenize(s string) []string {
	var toks []string
	i := 0
	for i < len(s) {
		ch := s[i]
		switch {
		case ch == ' ' || ch == '\n' || ch == '\t' || ch == '\r':
			i++
		case ch == '(' || ch == ')':
			toks = append(toks, string(ch))
			i++
		case ch == '|':
			j := i + 1
			for j < len(s) && s[j] != '|' {
				j++
			}
			toks = append(toks, s[i:min(j+1, len(s))])
			i = j + 1
		default:
			j := i
			for j < len(s) && !strings.ContainsRune(" \n\t\r()", rune(s[j])) {
				j++
			}
			toks = append(toks, s[i:j])
			i = j
		}
	}
	return toks
}
