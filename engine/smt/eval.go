package smt

import (
	"crypto/sha256"
	"encoding/binary"
	"math/big"
)

// Evaluator computes concrete values of terms under an assignment of the variables; uninterpreted
// functions are interpreted by a seeded hash of their arguments (a fixed but arbitrary function).
type Evaluator struct {
	Vars map[string]*big.Int
	Seed uint64
	Mode int // default values of unassigned variables: 0 uniform, 1 sparse, 2 dense, 3 zero, 4 ones
	memo map[int]*big.Int
	// Default for unassigned variables: hash of name and seed
}

func NewEvaluator(vars map[string]*big.Int, seed uint64) *Evaluator {
	return &Evaluator{Vars: vars, Seed: seed, memo: map[int]*big.Int{}}
}

func hashBits(w int, seed uint64, parts ...[]byte) *big.Int {
	out := new(big.Int)
	nbytes := (w + 7) / 8
	var buf []byte
	for ctr := uint32(0); len(buf) < nbytes; ctr++ {
		h := sha256.New()
		var hd [12]byte
		binary.BigEndian.PutUint64(hd[:8], seed)
		binary.BigEndian.PutUint32(hd[8:], ctr)
		h.Write(hd[:])
		for _, p := range parts {
			var l [4]byte
			binary.BigEndian.PutUint32(l[:], uint32(len(p)))
			h.Write(l[:])
			h.Write(p)
		}
		buf = h.Sum(buf)
	}
	out.SetBytes(buf[:nbytes])
	if w == 0 {
		return out.And(out, big.NewInt(1))
	}
	return out.And(out, bigMask(w))
}

func toSigned(v *big.Int, w int) *big.Int {
	if v.Bit(w-1) == 1 {
		return new(big.Int).Sub(v, new(big.Int).Lsh(big.NewInt(1), uint(w)))
	}
	return v
}

func wrap(v *big.Int, w int) *big.Int {
	if w == 0 {
		return v
	}
	return v.And(v, bigMask(w))
}

func b2i(b bool) *big.Int {
	if b {
		return big.NewInt(1)
	}
	return big.NewInt(0)
}

// Eval evaluates t (iteratively over the DAG).
func (e *Evaluator) Eval(root *Term) *big.Int {
	type fr struct {
		t *Term
		i int
	}
	stack := []fr{{root, 0}}
	for len(stack) > 0 {
		f := &stack[len(stack)-1]
		t := f.t
		if _, ok := e.memo[t.ID]; ok {
			stack = stack[:len(stack)-1]
			continue
		}
		if f.i < len(t.Args) {
			a := t.Args[f.i]
			f.i++
			if _, ok := e.memo[a.ID]; !ok {
				stack = append(stack, fr{a, 0})
			}
			continue
		}
		e.memo[t.ID] = e.evalNode(t)
		stack = stack[:len(stack)-1]
	}
	return e.memo[root.ID]
}

func (e *Evaluator) arg(t *Term, i int) *big.Int { return e.memo[t.Args[i].ID] }

func (e *Evaluator) evalNode(t *Term) *big.Int {
	w := t.W
	switch t.Op {
	case OpConst:
		return new(big.Int).Set(constBig(t))
	case OpVar:
		if v, ok := e.Vars[t.Name]; ok {
			return new(big.Int).Set(v)
		}
		v := hashBits(w, e.Seed, []byte("var"), []byte(t.Name))
		switch e.Mode {
		case 1:
			v.And(v, hashBits(w, e.Seed+1, []byte("var"), []byte(t.Name)))
			v.And(v, hashBits(w, e.Seed+2, []byte("var"), []byte(t.Name)))
		case 2:
			v.Or(v, hashBits(w, e.Seed+1, []byte("var"), []byte(t.Name)))
			v.Or(v, hashBits(w, e.Seed+2, []byte("var"), []byte(t.Name)))
		case 3:
			v.SetInt64(0)
		case 4:
			if w == 0 {
				v.SetInt64(1)
			} else {
				v.Set(bigMask(w))
			}
		}
		return v
	case OpUF:
		parts := [][]byte{[]byte("uf"), []byte(t.Name)}
		for i := range t.Args {
			parts = append(parts, e.arg(t, i).Bytes(), []byte{byte(t.Args[i].W)})
		}
		return hashBits(w, e.Seed, parts...)
	case OpNot:
		return b2i(e.arg(t, 0).Sign() == 0)
	case OpAnd:
		for i := range t.Args {
			if e.arg(t, i).Sign() == 0 {
				return big.NewInt(0)
			}
		}
		return big.NewInt(1)
	case OpOr:
		for i := range t.Args {
			if e.arg(t, i).Sign() != 0 {
				return big.NewInt(1)
			}
		}
		return big.NewInt(0)
	case OpIte:
		if e.arg(t, 0).Sign() != 0 {
			return e.arg(t, 1)
		}
		return e.arg(t, 2)
	case OpEq:
		return b2i(e.arg(t, 0).Cmp(e.arg(t, 1)) == 0)
	case OpAdd:
		r := new(big.Int)
		for i := range t.Args {
			r.Add(r, e.arg(t, i))
		}
		return wrap(r, w)
	case OpSub:
		return wrap(new(big.Int).Sub(e.arg(t, 0), e.arg(t, 1)), w)
	case OpMul:
		return wrap(new(big.Int).Mul(e.arg(t, 0), e.arg(t, 1)), w)
	case OpNeg:
		return wrap(new(big.Int).Neg(e.arg(t, 0)), w)
	case OpUDiv:
		if e.arg(t, 1).Sign() == 0 {
			return bigMask(w)
		}
		return new(big.Int).Quo(e.arg(t, 0), e.arg(t, 1))
	case OpURem:
		if e.arg(t, 1).Sign() == 0 {
			return e.arg(t, 0)
		}
		return new(big.Int).Rem(e.arg(t, 0), e.arg(t, 1))
	case OpSDiv:
		a, b := toSigned(e.arg(t, 0), w), toSigned(e.arg(t, 1), w)
		if b.Sign() == 0 {
			if a.Sign() < 0 {
				return big.NewInt(1)
			}
			return bigMask(w)
		}
		return wrap(new(big.Int).Quo(a, b), w)
	case OpSRem:
		a, b := toSigned(e.arg(t, 0), w), toSigned(e.arg(t, 1), w)
		if b.Sign() == 0 {
			return e.arg(t, 0)
		}
		return wrap(new(big.Int).Rem(a, b), w)
	case OpBvAnd:
		return new(big.Int).And(e.arg(t, 0), e.arg(t, 1))
	case OpBvOr:
		return new(big.Int).Or(e.arg(t, 0), e.arg(t, 1))
	case OpBvXor:
		r := new(big.Int)
		for i := range t.Args {
			r.Xor(r, e.arg(t, i))
		}
		return r
	case OpBvNot:
		return new(big.Int).Xor(e.arg(t, 0), bigMask(w))
	case OpShl:
		s := e.arg(t, 1)
		if !s.IsUint64() || s.Uint64() >= uint64(w) {
			return big.NewInt(0)
		}
		return wrap(new(big.Int).Lsh(e.arg(t, 0), uint(s.Uint64())), w)
	case OpLShr:
		s := e.arg(t, 1)
		if !s.IsUint64() || s.Uint64() >= uint64(w) {
			return big.NewInt(0)
		}
		return new(big.Int).Rsh(e.arg(t, 0), uint(s.Uint64()))
	case OpAShr:
		s := e.arg(t, 1)
		sh := uint(w)
		if s.IsUint64() && s.Uint64() < uint64(w) {
			sh = uint(s.Uint64())
		}
		return wrap(new(big.Int).Rsh(toSigned(e.arg(t, 0), w), sh), w)
	case OpConcat:
		r := new(big.Int)
		for i, a := range t.Args {
			r.Lsh(r, uint(a.W))
			r.Or(r, e.arg(t, i))
		}
		return r
	case OpExtract:
		r := new(big.Int).Rsh(e.arg(t, 0), uint(t.Lo))
		return wrap(r, t.Hi-t.Lo+1)
	case OpSExt:
		return wrap(new(big.Int).Set(toSigned(e.arg(t, 0), t.Args[0].W)), w)
	case OpUlt:
		return b2i(e.arg(t, 0).Cmp(e.arg(t, 1)) < 0)
	case OpUle:
		return b2i(e.arg(t, 0).Cmp(e.arg(t, 1)) <= 0)
	case OpSlt:
		return b2i(toSigned(e.arg(t, 0), t.Args[0].W).Cmp(toSigned(e.arg(t, 1), t.Args[0].W)) < 0)
	case OpSle:
		return b2i(toSigned(e.arg(t, 0), t.Args[0].W).Cmp(toSigned(e.arg(t, 1), t.Args[0].W)) <= 0)
	}
	panic("eval: unsupported op")
}
