// Package smt: hash-consed bit-vector/bool terms with constructor-time simplification,
// a concrete evaluator, an SMT-LIB2 printer and a solver process wrapper.
package smt

import (
	"fmt"
	"math/big"
	"math/bits"
	"sort"
	"strconv"
	"strings"
)

type Op uint8

const (
	OpConst Op = iota
	OpVar
	OpUF
	OpNot
	OpAnd
	OpOr
	OpIte
	OpEq
	OpAdd
	OpSub
	OpMul
	OpUDiv
	OpURem
	OpSDiv
	OpSRem
	OpNeg
	OpBvAnd
	OpBvOr
	OpBvXor
	OpBvNot
	OpShl
	OpLShr
	OpAShr
	OpConcat
	OpExtract
	OpSExt
	OpUlt
	OpUle
	OpSlt
	OpSle
)

var opNames = map[Op]string{
	OpNot: "not", OpAnd: "and", OpOr: "or", OpIte: "ite", OpEq: "=",
	OpAdd: "bvadd", OpSub: "bvsub", OpMul: "bvmul", OpUDiv: "bvudiv", OpURem: "bvurem",
	OpSDiv: "bvsdiv", OpSRem: "bvsrem", OpNeg: "bvneg", OpBvAnd: "bvand", OpBvOr: "bvor",
	OpBvXor: "bvxor", OpBvNot: "bvnot", OpShl: "bvshl", OpLShr: "bvlshr", OpAShr: "bvashr",
	OpConcat: "concat", OpUlt: "bvult", OpUle: "bvule", OpSlt: "bvslt", OpSle: "bvsle",
}

// Term is an immutable node. W==0 means Bool.
type Term struct {
	ID   int
	Op   Op
	W    int
	Args []*Term
	Val  uint64   // constant value when W<=64 (bool: 0/1)
	Big  *big.Int // constant value when W>64
	Name string   // var / uf name
	Hi   int      // extract hi / sext amount
	Lo   int      // extract lo
}

func (t *Term) IsConst() bool { return t.Op == OpConst }
func (t *Term) IsBool() bool  { return t.W == 0 }
func (t *Term) IsTrue() bool  { return t.Op == OpConst && t.W == 0 && t.Val == 1 }
func (t *Term) IsFalse() bool { return t.Op == OpConst && t.W == 0 && t.Val == 0 }

// Uint returns the constant value (W<=64).
func (t *Term) Uint() uint64 { return t.Val }

// Int returns the constant as signed value of its width.
func (t *Term) Int() int64 {
	if t.W >= 64 || t.W == 0 {
		return int64(t.Val)
	}
	sh := uint(64 - t.W)
	return int64(t.Val<<sh) >> sh
}

// Ctx is a term factory (not safe for concurrent use).
type Ctx struct {
	table   map[string]*Term
	smallC  map[uint64]*Term // (w<<?)... small constant cache
	nextID  int
	True    *Term
	False   *Term
	Inverse map[string]string // UF name -> inverse UF name (first arg is the key)
	// UFInfo: registered UFs (name -> signature)
	UFs     map[string]*UFSig
	NoSimp  bool
	NoSplit bool // word-level mode: bitwise operations are not pushed through concatenations
	keybuf  []byte
	NumVars int
}

type UFSig struct {
	Name string
	In   []int
	Out  int
}

func NewCtx() *Ctx {
	c := &Ctx{table: map[string]*Term{}, smallC: map[uint64]*Term{}, Inverse: map[string]string{}, UFs: map[string]*UFSig{}}
	c.False = c.mk(&Term{Op: OpConst, W: 0, Val: 0})
	c.True = c.mk(&Term{Op: OpConst, W: 0, Val: 1})
	return c
}

func (c *Ctx) NumTerms() int { return c.nextID }

func (c *Ctx) mk(t *Term) *Term {
	b := c.keybuf[:0]
	b = append(b, byte(t.Op))
	b = strconv.AppendInt(b, int64(t.W), 10)
	switch t.Op {
	case OpConst:
		b = append(b, ':')
		if t.W > 64 {
			b = append(b, t.Big.Text(16)...)
		} else {
			b = strconv.AppendUint(b, t.Val, 16)
		}
	case OpVar:
		b = append(b, ':')
		b = append(b, t.Name...)
	case OpUF:
		b = append(b, ':')
		b = append(b, t.Name...)
	case OpExtract, OpSExt:
		b = append(b, ':')
		b = strconv.AppendInt(b, int64(t.Hi), 10)
		b = append(b, ',')
		b = strconv.AppendInt(b, int64(t.Lo), 10)
	}
	for _, a := range t.Args {
		b = append(b, ' ')
		b = strconv.AppendInt(b, int64(a.ID), 10)
	}
	c.keybuf = b
	if x, ok := c.table[string(b)]; ok {
		return x
	}
	t.ID = c.nextID
	c.nextID++
	c.table[string(b)] = t
	return t
}

func mask(w int) uint64 {
	if w >= 64 {
		return ^uint64(0)
	}
	return (uint64(1) << uint(w)) - 1
}

func bigMask(w int) *big.Int {
	m := new(big.Int).Lsh(big.NewInt(1), uint(w))
	return m.Sub(m, big.NewInt(1))
}

// Const builds a bit-vector constant of width w (w<=64).
func (c *Ctx) Const(w int, v uint64) *Term {
	if w == 0 {
		return c.Bool(v != 0)
	}
	if w > 64 {
		return c.BigConst(w, new(big.Int).SetUint64(v))
	}
	v &= mask(w)
	if v < 1<<20 && w <= 64 {
		k := uint64(w)<<24 | v
		if t, ok := c.smallC[k]; ok {
			return t
		}
		t := c.mk(&Term{Op: OpConst, W: w, Val: v})
		c.smallC[k] = t
		return t
	}
	return c.mk(&Term{Op: OpConst, W: w, Val: v})
}

func (c *Ctx) BigConst(w int, v *big.Int) *Term {
	v = new(big.Int).And(v, bigMask(w))
	if w <= 64 {
		return c.Const(w, v.Uint64())
	}
	return c.mk(&Term{Op: OpConst, W: w, Big: v})
}

func (c *Ctx) Bool(b bool) *Term {
	if b {
		return c.True
	}
	return c.False
}

func (c *Ctx) Var(name string, w int) *Term {
	t := c.mk(&Term{Op: OpVar, W: w, Name: name})
	return t
}

// constBig returns the value of a constant term as big.Int
func constBig(t *Term) *big.Int {
	if t.W > 64 {
		return t.Big
	}
	return new(big.Int).SetUint64(t.Val)
}

// UF application. out = result width (0 = Bool).
func (c *Ctx) UF(name string, out int, args ...*Term) *Term {
	in := make([]int, len(args))
	for i, a := range args {
		in[i] = a.W
	}
	if sig, ok := c.UFs[name]; ok {
		if sig.Out != out || len(sig.In) != len(in) {
			panic("UF signature mismatch for " + name)
		}
		for i := range in {
			if in[i] != sig.In[i] {
				panic(fmt.Sprintf("UF signature mismatch for %s arg %d: %d vs %d", name, i, in[i], sig.In[i]))
			}
		}
	} else {
		c.UFs[name] = &UFSig{Name: name, In: in, Out: out}
	}
	// inverse rewriting: D(k, E(k, x)) = x
	if inv, ok := c.Inverse[name]; ok && len(args) >= 1 {
		last := args[len(args)-1]
		if last.Op == OpUF && last.Name == inv && len(last.Args) == len(args) {
			same := true
			for i := 0; i < len(args)-1; i++ {
				if args[i] != last.Args[i] {
					same = false
				}
			}
			if same {
				return last.Args[len(args)-1]
			}
		}
	}
	return c.mk(&Term{Op: OpUF, W: out, Name: name, Args: append([]*Term(nil), args...)})
}

// ---------- boolean ----------

func (c *Ctx) Not(a *Term) *Term {
	if a.W != 0 {
		panic("Not on non-bool")
	}
	if a.IsConst() {
		return c.Bool(a.Val == 0)
	}
	if a.Op == OpNot {
		return a.Args[0]
	}
	return c.mk(&Term{Op: OpNot, W: 0, Args: []*Term{a}})
}

func (c *Ctx) And(xs ...*Term) *Term {
	var out []*Term
	seen := map[int]bool{}
	for _, x := range xs {
		if x.W != 0 {
			panic("And on non-bool")
		}
		if x.IsFalse() {
			return c.False
		}
		if x.IsTrue() {
			continue
		}
		if x.Op == OpAnd {
			for _, y := range x.Args {
				if !seen[y.ID] {
					seen[y.ID] = true
					out = append(out, y)
				}
			}
			continue
		}
		if !seen[x.ID] {
			seen[x.ID] = true
			out = append(out, x)
		}
	}
	for _, x := range out {
		if x.Op == OpNot && seen[x.Args[0].ID] {
			return c.False
		}
	}
	if len(out) == 0 {
		return c.True
	}
	if len(out) == 1 {
		return out[0]
	}
	return c.mk(&Term{Op: OpAnd, W: 0, Args: out})
}

func (c *Ctx) Or(xs ...*Term) *Term {
	var out []*Term
	seen := map[int]bool{}
	for _, x := range xs {
		if x.W != 0 {
			panic("Or on non-bool")
		}
		if x.IsTrue() {
			return c.True
		}
		if x.IsFalse() {
			continue
		}
		if x.Op == OpOr {
			for _, y := range x.Args {
				if !seen[y.ID] {
					seen[y.ID] = true
					out = append(out, y)
				}
			}
			continue
		}
		if !seen[x.ID] {
			seen[x.ID] = true
			out = append(out, x)
		}
	}
	for _, x := range out {
		if x.Op == OpNot && seen[x.Args[0].ID] {
			return c.True
		}
	}
	if len(out) == 0 {
		return c.False
	}
	if len(out) == 1 {
		return out[0]
	}
	return c.mk(&Term{Op: OpOr, W: 0, Args: out})
}

func (c *Ctx) Implies(a, b *Term) *Term { return c.Or(c.Not(a), b) }

func (c *Ctx) Ite(cond, a, b *Term) *Term {
	if cond.W != 0 {
		panic("Ite cond non-bool")
	}
	if a.W != b.W {
		panic(fmt.Sprintf("Ite width mismatch %d %d", a.W, b.W))
	}
	if cond.IsTrue() {
		return a
	}
	if cond.IsFalse() {
		return b
	}
	if a == b {
		return a
	}
	if a.W == 0 {
		if a.IsTrue() && b.IsFalse() {
			return cond
		}
		if a.IsFalse() && b.IsTrue() {
			return c.Not(cond)
		}
		if a.IsTrue() {
			return c.Or(cond, b)
		}
		if a.IsFalse() {
			return c.And(c.Not(cond), b)
		}
		if b.IsTrue() {
			return c.Or(c.Not(cond), a)
		}
		if b.IsFalse() {
			return c.And(cond, a)
		}
	}
	if cond.Op == OpNot {
		return c.Ite(cond.Args[0], b, a)
	}
	return c.mk(&Term{Op: OpIte, W: a.W, Args: []*Term{cond, a, b}})
}

func (c *Ctx) Eq(a, b *Term) *Term {
	if a.W != b.W {
		panic(fmt.Sprintf("Eq width mismatch %d %d", a.W, b.W))
	}
	if a == b {
		return c.True
	}
	if a.IsConst() && b.IsConst() {
		if a.W > 64 {
			return c.Bool(a.Big.Cmp(b.Big) == 0)
		}
		return c.Bool(a.Val == b.Val)
	}
	if a.W == 0 {
		if a.IsTrue() {
			return b
		}
		if b.IsTrue() {
			return a
		}
		if a.IsFalse() {
			return c.Not(b)
		}
		if b.IsFalse() {
			return c.Not(a)
		}
	}
	// concat == concat / const with same segmentation: split into conjunction
	if a.Op == OpConcat || b.Op == OpConcat {
		sa, sb := c.alignSegs(a, b)
		if len(sa) > 1 {
			conj := make([]*Term, 0, len(sa))
			for i := range sa {
				e := c.Eq(sa[i], sb[i])
				if e.IsFalse() {
					return c.False
				}
				conj = append(conj, e)
			}
			return c.And(conj...)
		}
	}
	// (x | y) == 0  is  x == 0 and y == 0
	if a.Op == OpBvOr && b.IsConst() && b.W <= 64 && b.Val == 0 {
		conj := make([]*Term, len(a.Args))
		for i, x := range a.Args {
			conj[i] = c.Eq(x, b)
		}
		return c.And(conj...)
	}
	if b.Op == OpBvOr && a.IsConst() && a.W <= 64 && a.Val == 0 {
		return c.Eq(b, a)
	}
	// ite(c, k1, k2) == k  with constants
	if b.IsConst() && a.Op == OpIte && a.Args[1].IsConst() && a.Args[2].IsConst() {
		return c.Ite(a.Args[0], c.Eq(a.Args[1], b), c.Eq(a.Args[2], b))
	}
	if a.IsConst() && b.Op == OpIte && b.Args[1].IsConst() && b.Args[2].IsConst() {
		return c.Ite(b.Args[0], c.Eq(b.Args[1], a), c.Eq(b.Args[2], a))
	}
	if a.ID > b.ID {
		a, b = b, a
	}
	return c.mk(&Term{Op: OpEq, W: 0, Args: []*Term{a, b}})
}

func (c *Ctx) Ne(a, b *Term) *Term { return c.Not(c.Eq(a, b)) }

// ---------- segments ----------

// segs returns the list of segments of t from most significant to least significant.
func segs(t *Term) []*Term {
	if t.Op == OpConcat {
		return t.Args
	}
	return []*Term{t}
}

// alignSegs splits a and b at the union of their segment boundaries.
func (c *Ctx) alignSegs(a, b *Term) ([]*Term, []*Term) {
	sa, sb := segs(a), segs(b)
	if len(sa) == 1 && len(sb) == 1 {
		return sa, sb
	}
	// boundaries as bit positions from the top
	bset := map[int]bool{}
	pos := 0
	for _, s := range sa {
		pos += s.W
		bset[pos] = true
	}
	pos = 0
	for _, s := range sb {
		pos += s.W
		bset[pos] = true
	}
	cut := func(ss []*Term) []*Term {
		var out []*Term
		pos := 0
		for _, s := range ss {
			start := pos
			end := pos + s.W
			last := start
			for p := start + 1; p <= end; p++ {
				if bset[p] {
					// piece [last,p) from the top of s
					hi := s.W - 1 - (last - start)
					lo := s.W - (p - start)
					out = append(out, c.Extract(s, hi, lo))
					last = p
				}
			}
			pos = end
		}
		return out
	}
	return cut(sa), cut(sb)
}

// Concat: args most significant first.
func (c *Ctx) Concat(xs ...*Term) *Term {
	var flat []*Term
	for _, x := range xs {
		if x.W == 0 {
			panic("Concat of bool")
		}
		if x.Op == OpConcat {
			flat = append(flat, x.Args...)
		} else {
			flat = append(flat, x)
		}
	}
	// merge adjacent
	var out []*Term
	for _, x := range flat {
		if len(out) > 0 {
			p := out[len(out)-1]
			if p.IsConst() && x.IsConst() {
				w := p.W + x.W
				if w <= 64 {
					out[len(out)-1] = c.Const(w, p.Val<<uint(x.W)|x.Val)
				} else {
					v := new(big.Int).Lsh(constBig(p), uint(x.W))
					v.Or(v, constBig(x))
					out[len(out)-1] = c.BigConst(w, v)
				}
				continue
			}
			if p.Op == OpExtract && x.Op == OpExtract && p.Args[0] == x.Args[0] && p.Lo == x.Hi+1 {
				out[len(out)-1] = c.Extract(p.Args[0], p.Hi, x.Lo)
				continue
			}
		}
		out = append(out, x)
	}
	if len(out) == 1 {
		return out[0]
	}
	w := 0
	for _, x := range out {
		w += x.W
	}
	return c.mk(&Term{Op: OpConcat, W: w, Args: out})
}

func (c *Ctx) Extract(t *Term, hi, lo int) *Term {
	if t.W == 0 {
		panic("Extract of bool")
	}
	if hi >= t.W || lo < 0 || hi < lo {
		panic(fmt.Sprintf("bad extract [%d:%d] of width %d", hi, lo, t.W))
	}
	w := hi - lo + 1
	if w == t.W {
		return t
	}
	switch t.Op {
	case OpConst:
		if t.W <= 64 {
			return c.Const(w, t.Val>>uint(lo))
		}
		v := new(big.Int).Rsh(t.Big, uint(lo))
		return c.BigConst(w, v)
	case OpExtract:
		return c.Extract(t.Args[0], t.Lo+hi, t.Lo+lo)
	case OpConcat:
		// positions: compute from LSB
		var parts []*Term
		pos := t.W
		for _, s := range t.Args {
			shi := pos - 1
			slo := pos - s.W
			pos = slo
			if slo > hi || shi < lo {
				continue
			}
			h := min(hi, shi) - slo
			l := max(lo, slo) - slo
			parts = append(parts, c.Extract(s, h, l))
		}
		return c.Concat(parts...)
	case OpBvAnd, OpBvOr, OpBvXor:
		if c.NoSplit {
			break
		}
		as := make([]*Term, len(t.Args))
		for i, a := range t.Args {
			as[i] = c.Extract(a, hi, lo)
		}
		switch t.Op {
		case OpBvAnd:
			return c.BvAnd(as[0], as[1])
		case OpBvOr:
			return c.BvOr(as[0], as[1])
		default:
			r := as[0]
			for _, x := range as[1:] {
				r = c.BvXor(r, x)
			}
			return r
		}
	case OpBvNot:
		if c.NoSplit {
			break
		}
		return c.BvNot(c.Extract(t.Args[0], hi, lo))
	case OpIte:
		if !c.NoSplit && (t.Args[1].IsConst() || t.Args[2].IsConst() || t.Args[1].Op == OpConcat || t.Args[2].Op == OpConcat) {
			return c.Ite(t.Args[0], c.Extract(t.Args[1], hi, lo), c.Extract(t.Args[2], hi, lo))
		}
	case OpAdd, OpSub, OpMul:
		// truncation distributes over +,-,*; only done for shallow operands (deep chains would be rebuilt
		// once per distinct width)
		if lo == 0 && shallow(t.Args[0]) && shallow(t.Args[1]) {
			if t.Op == OpAdd && len(t.Args) > 2 {
				break
			}
			a, b := c.Extract(t.Args[0], hi, 0), c.Extract(t.Args[1], hi, 0)
			switch t.Op {
			case OpAdd:
				return c.Add(a, b)
			case OpSub:
				return c.Sub(a, b)
			default:
				return c.Mul(a, b)
			}
		}
	case OpSExt:
		if hi < t.Args[0].W {
			return c.Extract(t.Args[0], hi, lo)
		}
	}
	return c.mk(&Term{Op: OpExtract, W: w, Args: []*Term{t}, Hi: hi, Lo: lo})
}

func shallow(t *Term) bool {
	switch t.Op {
	case OpConst, OpVar, OpExtract:
		return true
	case OpConcat:
		for _, a := range t.Args {
			if a.Op != OpConst && a.Op != OpVar && a.Op != OpExtract {
				return false
			}
		}
		return true
	}
	return false
}

func (c *Ctx) ZExt(t *Term, w int) *Term {
	if w < t.W {
		panic("zext to smaller")
	}
	if w == t.W {
		return t
	}
	return c.Concat(c.Const(w-t.W, 0), t)
}

func (c *Ctx) SExt(t *Term, w int) *Term {
	if w < t.W {
		panic("sext to smaller")
	}
	if w == t.W {
		return t
	}
	if t.IsConst() && w <= 64 {
		return c.Const(w, uint64(t.Int()))
	}
	// sign bit known zero?
	if t.Op == OpConcat && t.Args[0].IsConst() && t.Args[0].W <= 64 && (t.Args[0].Val>>(uint(t.Args[0].W)-1)) == 0 {
		return c.ZExt(t, w)
	}
	return c.mk(&Term{Op: OpSExt, W: w, Args: []*Term{t}, Hi: w - t.W})
}

// Resize converts t to width w (truncate or extend by signedness).
func (c *Ctx) Resize(t *Term, w int, signed bool) *Term {
	if w == t.W {
		return t
	}
	if w < t.W {
		return c.Extract(t, w-1, 0)
	}
	if signed {
		return c.SExt(t, w)
	}
	return c.ZExt(t, w)
}

// ---------- arithmetic ----------

func (c *Ctx) checkBin(a, b *Term, op string) {
	if a.W != b.W || a.W == 0 {
		panic(fmt.Sprintf("%s width mismatch %d %d", op, a.W, b.W))
	}
}

func (c *Ctx) bin(op Op, a, b *Term) *Term {
	return c.mk(&Term{Op: op, W: a.W, Args: []*Term{a, b}})
}

func isZero(t *Term) bool {
	if !t.IsConst() {
		return false
	}
	if t.W > 64 {
		return t.Big.Sign() == 0
	}
	return t.Val == 0
}

func isAllOnes(t *Term) bool {
	if !t.IsConst() {
		return false
	}
	if t.W > 64 {
		return t.Big.Cmp(bigMask(t.W)) == 0
	}
	return t.Val == mask(t.W)
}

func (c *Ctx) bigBin(a, b *Term, f func(x, y *big.Int) *big.Int) *Term {
	return c.BigConst(a.W, f(constBig(a), constBig(b)))
}

func (c *Ctx) Add(a, b *Term) *Term {
	c.checkBin(a, b, "add")
	if a.IsConst() && b.IsConst() {
		if a.W <= 64 {
			return c.Const(a.W, a.Val+b.Val)
		}
		return c.bigBin(a, b, func(x, y *big.Int) *big.Int { return new(big.Int).Add(x, y) })
	}
	if isZero(a) {
		return b
	}
	if isZero(b) {
		return a
	}
	if a.IsConst() { // constants to the right
		a, b = b, a
	}
	// zext(bit) - 1  ->  ite(bit, 0, ones)   (mask idiom ^(uint(b)-1))
	if b.IsConst() && isAllOnes(b) && a.Op == OpConcat && len(a.Args) == 2 && isZero(a.Args[0]) && a.Args[1].W == 1 {
		return c.Ite(c.Eq(a.Args[1], c.Const(1, 1)), c.Const(a.W, 0), b)
	}
	// addition of terms with disjoint non-zero bit ranges is a concatenation (byte assembly with '+')
	if (a.Op == OpConcat || a.IsConst()) && (b.Op == OpConcat || b.IsConst()) {
		sa, sb := c.alignSegs(a, b)
		if len(sa) > 1 {
			ok := true
			out := make([]*Term, len(sa))
			for i := range sa {
				switch {
				case isZero(sa[i]):
					out[i] = sb[i]
				case isZero(sb[i]):
					out[i] = sa[i]
				default:
					ok = false
				}
				if !ok {
					break
				}
			}
			if ok {
				return c.Concat(out...)
			}
		}
	}
	return c.addN(a, b)
}

// addN builds the AC-normal form of a+b: flattened, constants folded, operands sorted by id.
func (c *Ctx) addN(a, b *Term) *Term {
	var items []*Term
	w := a.W
	var k *Term
	add := func(t *Term) {
		if t.Op == OpAdd {
			for _, x := range t.Args {
				if x.IsConst() {
					if k == nil {
						k = x
					} else if w <= 64 {
						k = c.Const(w, k.Val+x.Val)
					} else {
						k = c.bigBin(k, x, func(p, q *big.Int) *big.Int { return new(big.Int).Add(p, q) })
					}
				} else {
					items = append(items, x)
				}
			}
			return
		}
		if t.IsConst() {
			if k == nil {
				k = t
			} else if w <= 64 {
				k = c.Const(w, k.Val+t.Val)
			} else {
				k = c.bigBin(k, t, func(p, q *big.Int) *big.Int { return new(big.Int).Add(p, q) })
			}
			return
		}
		items = append(items, t)
	}
	add(a)
	add(b)
	sort.SliceStable(items, func(i, j int) bool { return items[i].ID < items[j].ID })
	if k != nil && !isZero(k) {
		items = append(items, k)
	}
	if len(items) == 0 {
		return c.Const(w, 0)
	}
	if len(items) == 1 {
		return items[0]
	}
	return c.mk(&Term{Op: OpAdd, W: w, Args: items})
}

func (c *Ctx) Sub(a, b *Term) *Term {
	c.checkBin(a, b, "sub")
	if a.IsConst() && b.IsConst() {
		if a.W <= 64 {
			return c.Const(a.W, a.Val-b.Val)
		}
		return c.bigBin(a, b, func(x, y *big.Int) *big.Int { return new(big.Int).Sub(x, y) })
	}
	if isZero(b) {
		return a
	}
	if a == b {
		return c.Const(a.W, 0)
	}
	if b.IsConst() {
		return c.Add(a, c.Neg(b))
	}
	// (x + y) - x
	if a.Op == OpAdd && len(a.Args) == 2 {
		if a.Args[0] == b {
			return a.Args[1]
		}
		if a.Args[1] == b {
			return a.Args[0]
		}
	}
	return c.bin(OpSub, a, b)
}

func (c *Ctx) Neg(a *Term) *Term {
	if a.IsConst() {
		if a.W <= 64 {
			return c.Const(a.W, -a.Val)
		}
		return c.BigConst(a.W, new(big.Int).Neg(a.Big))
	}
	return c.mk(&Term{Op: OpNeg, W: a.W, Args: []*Term{a}})
}

func (c *Ctx) Mul(a, b *Term) *Term {
	c.checkBin(a, b, "mul")
	if a.IsConst() && b.IsConst() {
		if a.W <= 64 {
			return c.Const(a.W, a.Val*b.Val)
		}
		return c.bigBin(a, b, func(x, y *big.Int) *big.Int { return new(big.Int).Mul(x, y) })
	}
	if a.IsConst() {
		a, b = b, a
	}
	if isZero(b) {
		return b
	}
	if b.IsConst() && b.W <= 64 && b.Val == 1 {
		return a
	}
	if b.IsConst() && b.W <= 64 && bits.OnesCount64(b.Val) == 1 {
		return c.Shl(a, c.Const(a.W, uint64(bits.TrailingZeros64(b.Val))))
	}
	if !b.IsConst() && a.ID > b.ID {
		a, b = b, a
	}
	return c.bin(OpMul, a, b)
}

func (c *Ctx) UDiv(a, b *Term) *Term {
	c.checkBin(a, b, "udiv")
	if a.IsConst() && b.IsConst() && a.W <= 64 {
		if b.Val == 0 {
			return c.Const(a.W, mask(a.W))
		}
		return c.Const(a.W, a.Val/b.Val)
	}
	if b.IsConst() && b.W <= 64 && bits.OnesCount64(b.Val) == 1 {
		return c.LShr(a, c.Const(a.W, uint64(bits.TrailingZeros64(b.Val))))
	}
	return c.bin(OpUDiv, a, b)
}

func (c *Ctx) URem(a, b *Term) *Term {
	c.checkBin(a, b, "urem")
	if a.IsConst() && b.IsConst() && a.W <= 64 {
		if b.Val == 0 {
			return a
		}
		return c.Const(a.W, a.Val%b.Val)
	}
	if b.IsConst() && b.W <= 64 && bits.OnesCount64(b.Val) == 1 {
		k := bits.TrailingZeros64(b.Val)
		if k == 0 {
			return c.Const(a.W, 0)
		}
		return c.ZExt(c.Extract(a, k-1, 0), a.W)
	}
	return c.bin(OpURem, a, b)
}

func (c *Ctx) SDiv(a, b *Term) *Term {
	c.checkBin(a, b, "sdiv")
	if a.IsConst() && b.IsConst() && a.W <= 64 {
		if b.Val == 0 {
			if a.Int() < 0 {
				return c.Const(a.W, 1)
			}
			return c.Const(a.W, mask(a.W))
		}
		x, y := a.Int(), b.Int()
		if y == -1 {
			return c.Const(a.W, uint64(-x))
		}
		return c.Const(a.W, uint64(x/y))
	}
	return c.bin(OpSDiv, a, b)
}

func (c *Ctx) SRem(a, b *Term) *Term {
	c.checkBin(a, b, "srem")
	if a.IsConst() && b.IsConst() && a.W <= 64 {
		if b.Val == 0 {
			return a
		}
		x, y := a.Int(), b.Int()
		if y == -1 {
			return c.Const(a.W, 0)
		}
		return c.Const(a.W, uint64(x%y))
	}
	return c.bin(OpSRem, a, b)
}

// bitwise ops push through concat structure

func isConstIte(t *Term) bool {
	return t.Op == OpIte && t.Args[1].IsConst() && t.Args[2].IsConst()
}

func (c *Ctx) bitwise(op Op, a, b *Term) *Term {
	if op == OpBvAnd || op == OpBvOr {
		// (ite c k1 k2) op x  ->  ite c (k1 op x) (k2 op x)   for mask-like constants
		if isConstIte(b) && !isConstIte(a) {
			a, b = b, a
		}
		if isConstIte(a) && (isZero(a.Args[1]) || isAllOnes(a.Args[1])) && (isZero(a.Args[2]) || isAllOnes(a.Args[2])) {
			return c.Ite(a.Args[0], c.bitwise(op, a.Args[1], b), c.bitwise(op, a.Args[2], b))
		}
	}
	if !c.NoSplit && (a.Op == OpConcat || b.Op == OpConcat) {
		// only split when it pays: both structured, or the other is const
		if (a.Op == OpConcat && b.Op == OpConcat) || a.IsConst() || b.IsConst() || op != OpBvXor || true {
			sa, sb := c.alignSegs(a, b)
			if len(sa) > 1 {
				out := make([]*Term, len(sa))
				for i := range sa {
					out[i] = c.bitwise(op, sa[i], sb[i])
				}
				return c.Concat(out...)
			}
		}
	}
	switch op {
	case OpBvAnd:
		if a.IsConst() && b.IsConst() {
			if a.W <= 64 {
				return c.Const(a.W, a.Val&b.Val)
			}
			return c.bigBin(a, b, func(x, y *big.Int) *big.Int { return new(big.Int).And(x, y) })
		}
		if isZero(a) || isAllOnes(b) {
			return a
		}
		if isZero(b) || isAllOnes(a) {
			return b
		}
		if a == b {
			return a
		}
		// contiguous mask on a non-concat term: split into segments
		if b.IsConst() || a.IsConst() {
			k, x := b, a
			if a.IsConst() {
				k, x = a, b
			}
			if k.W <= 64 {
				if r := c.maskSegments(x, k.Val); r != nil {
					return r
				}
			}
		}
	case OpBvOr:
		if a.IsConst() && b.IsConst() {
			if a.W <= 64 {
				return c.Const(a.W, a.Val|b.Val)
			}
			return c.bigBin(a, b, func(x, y *big.Int) *big.Int { return new(big.Int).Or(x, y) })
		}
		if isZero(a) || isAllOnes(b) {
			return b
		}
		if isZero(b) || isAllOnes(a) {
			return a
		}
		if a == b {
			return a
		}
	case OpBvXor:
		return c.xorN(a, b)
	}
	if a.IsConst() {
		a, b = b, a
	}
	if !b.IsConst() && a.ID > b.ID {
		a, b = b, a
	}
	return c.bin(op, a, b)
}

// xorN builds the AC-normal form of a xor b: flattened, duplicates cancelled, constants folded, sorted by id.
func (c *Ctx) xorN(a, b *Term) *Term {
	var items []*Term
	add := func(t *Term) {
		if t.Op == OpBvXor {
			items = append(items, t.Args...)
		} else {
			items = append(items, t)
		}
	}
	add(a)
	add(b)
	w := a.W
	var kc *Term
	cnt := map[int]int{}
	for _, t := range items {
		if t.IsConst() {
			if kc == nil {
				kc = t
			} else if w <= 64 {
				kc = c.Const(w, kc.Val^t.Val)
			} else {
				kc = c.BigConst(w, new(big.Int).Xor(constBig(kc), constBig(t)))
			}
			continue
		}
		cnt[t.ID]++
	}
	var out []*Term
	seen := map[int]bool{}
	for _, t := range items {
		if t.IsConst() || seen[t.ID] {
			continue
		}
		seen[t.ID] = true
		if cnt[t.ID]%2 == 1 {
			out = append(out, t)
		}
	}
	sort.Slice(out, func(i, j int) bool { return out[i].ID < out[j].ID })
	if kc != nil && !isZero(kc) {
		if isAllOnes(kc) && len(out) == 1 {
			return c.BvNot(out[0])
		}
		out = append(out, kc)
	}
	if len(out) == 0 {
		return c.Const(w, 0)
	}
	if len(out) == 1 {
		return out[0]
	}
	return c.mk(&Term{Op: OpBvXor, W: w, Args: out})
}

// maskSegments rewrites x & k into concat of extracts/zeros when k consists of byte-ish runs.
func (c *Ctx) maskSegments(x *Term, k uint64) *Term {
	w := x.W
	// count runs
	runs := 0
	prev := uint64(2)
	for i := 0; i < w; i++ {
		b := (k >> uint(i)) & 1
		if b != prev {
			runs++
			prev = b
		}
	}
	if runs > 4 {
		return nil
	}
	var parts []*Term // from MSB
	i := w - 1
	for i >= 0 {
		b := (k >> uint(i)) & 1
		j := i
		for j >= 0 && (k>>uint(j))&1 == b {
			j--
		}
		if b == 1 {
			parts = append(parts, c.Extract(x, i, j+1))
		} else {
			parts = append(parts, c.Const(i-j, 0))
		}
		i = j
	}
	return c.Concat(parts...)
}

func (c *Ctx) BvAnd(a, b *Term) *Term { c.checkBin(a, b, "and"); return c.bitwise(OpBvAnd, a, b) }
func (c *Ctx) BvOr(a, b *Term) *Term  { c.checkBin(a, b, "or"); return c.bitwise(OpBvOr, a, b) }
func (c *Ctx) BvXor(a, b *Term) *Term { c.checkBin(a, b, "xor"); return c.bitwise(OpBvXor, a, b) }

func (c *Ctx) BvNot(a *Term) *Term {
	if a.IsConst() {
		if a.W <= 64 {
			return c.Const(a.W, ^a.Val)
		}
		return c.BigConst(a.W, new(big.Int).Xor(a.Big, bigMask(a.W)))
	}
	if a.Op == OpBvNot {
		return a.Args[0]
	}
	if a.Op == OpIte && a.Args[1].IsConst() && a.Args[2].IsConst() {
		return c.Ite(a.Args[0], c.BvNot(a.Args[1]), c.BvNot(a.Args[2]))
	}
	if a.Op == OpConcat && !c.NoSplit {
		out := make([]*Term, len(a.Args))
		for i, s := range a.Args {
			out[i] = c.BvNot(s)
		}
		return c.Concat(out...)
	}
	return c.mk(&Term{Op: OpBvNot, W: a.W, Args: []*Term{a}})
}

// shifts: b is the shift amount, same width as a (SMT semantics: >= width gives 0 / sign fill)
func (c *Ctx) Shl(a, b *Term) *Term {
	c.checkBin(a, b, "shl")
	if b.IsConst() && (b.W <= 64 || b.Big.IsUint64()) {
		k := b.Val
		if b.W > 64 {
			k = b.Big.Uint64()
		}
		if k == 0 {
			return a
		}
		if k >= uint64(a.W) {
			return c.Const(a.W, 0)
		}
		return c.Concat(c.Extract(a, a.W-1-int(k), 0), c.Const(int(k), 0))
	}
	if isZero(a) {
		return a
	}
	return c.bin(OpShl, a, b)
}

func (c *Ctx) LShr(a, b *Term) *Term {
	c.checkBin(a, b, "lshr")
	if b.IsConst() && (b.W <= 64 || b.Big.IsUint64()) {
		k := b.Val
		if b.W > 64 {
			k = b.Big.Uint64()
		}
		if k == 0 {
			return a
		}
		if k >= uint64(a.W) {
			return c.Const(a.W, 0)
		}
		return c.Concat(c.Const(int(k), 0), c.Extract(a, a.W-1, int(k)))
	}
	if isZero(a) {
		return a
	}
	return c.bin(OpLShr, a, b)
}

func (c *Ctx) AShr(a, b *Term) *Term {
	c.checkBin(a, b, "ashr")
	if a.IsConst() && b.IsConst() && a.W <= 64 {
		k := b.Val
		if k >= uint64(a.W) {
			k = uint64(a.W) - 1
		}
		return c.Const(a.W, uint64(a.Int()>>k))
	}
	if b.IsConst() && b.W <= 64 {
		k := b.Val
		if k == 0 {
			return a
		}
		if k >= uint64(a.W) {
			k = uint64(a.W) - 1
		}
		return c.SExt(c.Extract(a, a.W-1, int(k)), a.W)
	}
	return c.bin(OpAShr, a, b)
}

// comparisons

func (c *Ctx) cmp(op Op, a, b *Term) *Term {
	c.checkBin(a, b, "cmp")
	if a.IsConst() && b.IsConst() {
		if a.W > 64 {
			r := a.Big.Cmp(b.Big)
			switch op {
			case OpUlt:
				return c.Bool(r < 0)
			case OpUle:
				return c.Bool(r <= 0)
			}
		} else {
			switch op {
			case OpUlt:
				return c.Bool(a.Val < b.Val)
			case OpUle:
				return c.Bool(a.Val <= b.Val)
			case OpSlt:
				return c.Bool(a.Int() < b.Int())
			case OpSle:
				return c.Bool(a.Int() <= b.Int())
			}
		}
	}
	if a == b {
		return c.Bool(op == OpUle || op == OpSle)
	}
	switch op {
	case OpUlt:
		if isZero(b) {
			return c.False
		}
		// x < 2^k with x = concat(0.., y)
		if b.IsConst() && b.W <= 64 && a.Op == OpConcat && a.Args[0].IsConst() && isZero(a.Args[0]) {
			rest := a.W - a.Args[0].W
			if rest < 64 && b.Val >= (uint64(1)<<uint(rest)) {
				return c.True
			}
		}
	case OpUle:
		if isZero(a) || isAllOnes(b) {
			return c.True
		}
		if b.IsConst() && b.W <= 64 && a.Op == OpConcat && a.Args[0].IsConst() && isZero(a.Args[0]) {
			rest := a.W - a.Args[0].W
			if rest < 64 && b.Val >= (uint64(1)<<uint(rest))-1 {
				return c.True
			}
		}
	case OpSlt, OpSle:
		// both known non-negative (leading zero const) -> unsigned compare
		if nonNeg(a) && nonNeg(b) {
			if op == OpSlt {
				return c.cmp(OpUlt, a, b)
			}
			return c.cmp(OpUle, a, b)
		}
	}
	return c.mk(&Term{Op: op, W: 0, Args: []*Term{a, b}})
}

func nonNeg(t *Term) bool {
	if t.IsConst() {
		if t.W > 64 {
			return t.Big.Bit(t.W-1) == 0
		}
		return t.Val>>(uint(t.W)-1) == 0
	}
	if t.Op == OpConcat && t.Args[0].IsConst() {
		return nonNeg(t.Args[0])
	}
	return false
}

func (c *Ctx) Ult(a, b *Term) *Term { return c.cmp(OpUlt, a, b) }
func (c *Ctx) Ule(a, b *Term) *Term { return c.cmp(OpUle, a, b) }
func (c *Ctx) Slt(a, b *Term) *Term { return c.cmp(OpSlt, a, b) }
func (c *Ctx) Sle(a, b *Term) *Term { return c.cmp(OpSle, a, b) }

// RotL by constant k
func (c *Ctx) RotL(a *Term, k int) *Term {
	k = ((k % a.W) + a.W) % a.W
	if k == 0 {
		return a
	}
	return c.Concat(c.Extract(a, a.W-1-k, 0), c.Extract(a, a.W-1, a.W-k))
}

// ---------- printing ----------

func (t *Term) String() string {
	var sb strings.Builder
	t.str(&sb, 0)
	return sb.String()
}

func (t *Term) str(sb *strings.Builder, depth int) {
	if depth > 6 {
		fmt.Fprintf(sb, "#%d", t.ID)
		return
	}
	switch t.Op {
	case OpConst:
		if t.W == 0 {
			if t.Val == 1 {
				sb.WriteString("true")
			} else {
				sb.WriteString("false")
			}
		} else if t.W > 64 {
			fmt.Fprintf(sb, "0x%s:%d", t.Big.Text(16), t.W)
		} else {
			fmt.Fprintf(sb, "0x%x:%d", t.Val, t.W)
		}
	case OpVar:
		sb.WriteString(t.Name)
	case OpExtract:
		sb.WriteString("(ext ")
		t.Args[0].str(sb, depth+1)
		fmt.Fprintf(sb, " %d %d)", t.Hi, t.Lo)
	default:
		n := opNames[t.Op]
		if t.Op == OpUF {
			n = t.Name
		}
		if t.Op == OpSExt {
			n = "sext"
		}
		sb.WriteString("(" + n)
		for _, a := range t.Args {
			sb.WriteByte(' ')
			a.str(sb, depth+1)
		}
		sb.WriteByte(')')
	}
}
