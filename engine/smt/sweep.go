package smt

import (
	"fmt"
	"os"
	"sort"
	"time"
)

var sweepLog = os.Getenv("VERIF_SWEEPLOG") != ""

// Make rebuilds a term of the same kind as t over new arguments (through the simplifying constructors).
func (c *Ctx) Make(t *Term, args []*Term) *Term {
	switch t.Op {
	case OpConst, OpVar:
		return t
	case OpUF:
		return c.UF(t.Name, t.W, args...)
	case OpNot:
		return c.Not(args[0])
	case OpAnd:
		return c.And(args...)
	case OpOr:
		return c.Or(args...)
	case OpIte:
		return c.Ite(args[0], args[1], args[2])
	case OpEq:
		return c.Eq(args[0], args[1])
	case OpAdd:
		r := args[0]
		for _, a := range args[1:] {
			r = c.Add(r, a)
		}
		return r
	case OpSub:
		return c.Sub(args[0], args[1])
	case OpMul:
		return c.Mul(args[0], args[1])
	case OpUDiv:
		return c.UDiv(args[0], args[1])
	case OpURem:
		return c.URem(args[0], args[1])
	case OpSDiv:
		return c.SDiv(args[0], args[1])
	case OpSRem:
		return c.SRem(args[0], args[1])
	case OpNeg:
		return c.Neg(args[0])
	case OpBvAnd:
		return c.BvAnd(args[0], args[1])
	case OpBvOr:
		return c.BvOr(args[0], args[1])
	case OpBvXor:
		r := args[0]
		for _, a := range args[1:] {
			r = c.BvXor(r, a)
		}
		return r
	case OpBvNot:
		return c.BvNot(args[0])
	case OpShl:
		return c.Shl(args[0], args[1])
	case OpLShr:
		return c.LShr(args[0], args[1])
	case OpAShr:
		return c.AShr(args[0], args[1])
	case OpConcat:
		return c.Concat(args...)
	case OpExtract:
		return c.Extract(args[0], t.Hi, t.Lo)
	case OpSExt:
		return c.SExt(args[0], t.W)
	case OpUlt:
		return c.Ult(args[0], args[1])
	case OpUle:
		return c.Ule(args[0], args[1])
	case OpSlt:
		return c.Slt(args[0], args[1])
	case OpSle:
		return c.Sle(args[0], args[1])
	}
	panic("Make: unsupported op")
}

// SweepStats reports what a sweep did.
type SweepStats struct {
	Nodes      int
	Candidates int
	Proved     int
	Refuted    int
	Unknown    int
}

// Sweep relates the DAGs below roots node by node ("SAT sweeping"): candidate equalities are proposed by
// random simulation, visited in topological order and each one is PROVED by the solver on the DAG in
// which all previously proved equalities have been merged; only proved equalities are merged.  It
// returns the rebuilt roots.  Simulation never decides anything; a refuted or undecided candidate is
// simply not merged.
func Sweep(c *Ctx, s *Solver, roots []*Term, minWidth int) ([]*Term, SweepStats) {
	var st SweepStats
	// collect nodes
	seen := map[int]*Term{}
	var walk func(t *Term)
	walk = func(t *Term) {
		if _, ok := seen[t.ID]; ok {
			return
		}
		seen[t.ID] = t
		for _, a := range t.Args {
			walk(a)
		}
	}
	for _, r := range roots {
		walk(r)
	}
	nodes := make([]*Term, 0, len(seen))
	for _, t := range seen {
		nodes = append(nodes, t)
	}
	sort.Slice(nodes, func(i, j int) bool { return nodes[i].ID < nodes[j].ID })
	st.Nodes = len(nodes)
	if sweepLog {
		fmt.Fprintf(os.Stderr, "SWEEP start nodes=%d\n", len(nodes))
	}
	// simulation signatures
	const K = 12
	evs := make([]*Evaluator, K)
	for k := range evs {
		evs[k] = NewEvaluator(nil, uint64(k+1)*0x9e3779b97f4a7c15)
	}
	sig := func(t *Term) string {
		key := fmt.Sprintf("%d:", t.W)
		for _, ev := range evs {
			key += ev.Eval(t).Text(16) + ","
		}
		return key
	}
	// rebuild with merging
	newOf := map[int]*Term{}
	classes := map[string][]*Term{}
	for _, n := range nodes {
		var n2 *Term
		if len(n.Args) == 0 {
			n2 = n
		} else {
			args := make([]*Term, len(n.Args))
			for i, a := range n.Args {
				args[i] = newOf[a.ID]
			}
			n2 = c.Make(n, args)
		}
		if n.W >= minWidth && n.Op != OpConst && n.Op != OpVar {
			k := sig(n)
			merged := false
			for ci, r := range classes[k] {
				if ci >= 4 {
					break
				}
				if r == n2 {
					merged = true
					break
				}
				st.Candidates++
				t0 := time.Now()
				// local lemmas first: both sides with everything below a small depth replaced by free
				// variables (sound: generalisation); the full cones only as a last resort
				res, err := Unknown, error(nil)
				for _, depth := range []int{1, 2, 3, 5, 8, 12} {
					dist := minDist(n2, r, depth)
					memo := map[int]*Term{}
					an, ar := c.abstractCut(n2, dist, depth, memo), c.abstractCut(r, dist, depth, memo)
					if an == ar {
						res = Unsat
						break
					}
					r1, _, e1 := s.Check(c, []*Term{c.Ne(an, ar)}, nil)
					if e1 == nil && r1 == Unsat {
						res = Unsat
						break
					}
				}
				if res != Unsat {
					res, _, err = s.Check(c, []*Term{c.Ne(n2, r)}, nil)
				}
				if sweepLog {
					fmt.Fprintf(os.Stderr, "SWEEP cand=%d node=%d/%d w=%d op=%d res=%v %.2fs\n", st.Candidates, n.ID, len(nodes), n.W, n.Op, res, time.Since(t0).Seconds())
				}
				if err == nil && res == Unsat {
					st.Proved++
					n2 = r
					merged = true
					break
				}
				if err == nil && res == Sat {
					st.Refuted++
				} else {
					st.Unknown++
				}
			}
			if !merged {
				classes[k] = append(classes[k], n2)
			}
		}
		newOf[n.ID] = n2
	}
	if sweepLog {
		fmt.Fprintf(os.Stderr, "SWEEP done %+v\n", st)
	}
	out := make([]*Term, len(roots))
	for i, r := range roots {
		out[i] = newOf[r.ID]
	}
	return out, st
}

// abstractAt rebuilds t with every non-leaf sub-term at distance depth replaced by a free variable
// named after the sub-term (the same sub-term gets the same variable on both sides).
func (c *Ctx) abstractAt(t *Term, depth int, memo map[[2]int]*Term) *Term {
	if len(t.Args) == 0 {
		return t
	}
	if depth == 0 {
		return c.Var(fmt.Sprintf("cut!%d", t.ID), t.W)
	}
	k := [2]int{t.ID, depth}
	if v, ok := memo[k]; ok {
		return v
	}
	args := make([]*Term, len(t.Args))
	for i, a := range t.Args {
		args[i] = c.abstractAt(a, depth-1, memo)
	}
	v := c.Make(t, args)
	memo[k] = v
	return v
}

// minDist: minimal distance of every node from either root, explored down to limit.
func minDist(a, b *Term, limit int) map[int]int {
	dist := map[int]int{}
	type item struct {
		t *Term
		d int
	}
	queue := []item{{a, 0}, {b, 0}}
	for len(queue) > 0 {
		it := queue[0]
		queue = queue[1:]
		if d, ok := dist[it.t.ID]; ok && d <= it.d {
			continue
		}
		dist[it.t.ID] = it.d
		if it.d >= limit {
			continue
		}
		for _, x := range it.t.Args {
			queue = append(queue, item{x, it.d + 1})
		}
	}
	return dist
}

// abstractCut replaces every non-leaf node whose minimal distance from the roots is >= depth by a free
// variable (consistently for all its occurrences).
func (c *Ctx) abstractCut(t *Term, dist map[int]int, depth int, memo map[int]*Term) *Term {
	if len(t.Args) == 0 {
		return t
	}
	if d, ok := dist[t.ID]; !ok || d >= depth {
		return c.Var(fmt.Sprintf("cut!%d", t.ID), t.W)
	}
	if v, ok := memo[t.ID]; ok {
		return v
	}
	args := make([]*Term, len(t.Args))
	for i, a := range t.Args {
		args[i] = c.abstractCut(a, dist, depth, memo)
	}
	v := c.Make(t, args)
	memo[t.ID] = v
	return v
}
