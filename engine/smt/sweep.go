package smt

import (
	"fmt"
	"math/big"
	"os"
	"sort"
	"time"
)

var sweepLog = os.Getenv("VERIF_SWEEPLOG") != ""

// Make rebuilds a term of the same kind as t over new arguments (through the simplifying constructors).
func (c *Ctx) Make(t *Term, args []*Term) *Term {
	switch t.Op {
	case OpConst, OpVar:
		return t
	case OpUF:
		return c.UF(t.Name, t.W, args...)
	case OpNot:
		return c.Not(args[0])
	case OpAnd:
		return c.And(args...)
	case OpOr:
		return c.Or(args...)
	case OpIte:
		return c.Ite(args[0], args[1], args[2])
	case OpEq:
		return c.Eq(args[0], args[1])
	case OpAdd:
		r := args[0]
		for _, a := range args[1:] {
			r = c.Add(r, a)
		}
		return r
	case OpSub:
		return c.Sub(args[0], args[1])
	case OpMul:
		return c.Mul(args[0], args[1])
	case OpUDiv:
		return c.UDiv(args[0], args[1])
	case OpURem:
		return c.URem(args[0], args[1])
	case OpSDiv:
		return c.SDiv(args[0], args[1])
	case OpSRem:
		return c.SRem(args[0], args[1])
	case OpNeg:
		return c.Neg(args[0])
	case OpBvAnd:
		return c.BvAnd(args[0], args[1])
	case OpBvOr:
		return c.BvOr(args[0], args[1])
	case OpBvXor:
		r := args[0]
		for _, a := range args[1:] {
			r = c.BvXor(r, a)
		}
		return r
	case OpBvNot:
		return c.BvNot(args[0])
	case OpShl:
		return c.Shl(args[0], args[1])
	case OpLShr:
		return c.LShr(args[0], args[1])
	case OpAShr:
		return c.AShr(args[0], args[1])
	case OpConcat:
		return c.Concat(args...)
	case OpExtract:
		return c.Extract(args[0], t.Hi, t.Lo)
	case OpSExt:
		return c.SExt(args[0], t.W)
	case OpUlt:
		return c.Ult(args[0], args[1])
	case OpUle:
		return c.Ule(args[0], args[1])
	case OpSlt:
		return c.Slt(args[0], args[1])
	case OpSle:
		return c.Sle(args[0], args[1])
	}
	panic("Make: unsupported op")
}

// SweepStats reports what a sweep did.
type SweepStats struct {
	Nodes      int
	Candidates int
	Proved     int
	Refuted    int
	Unknown    int
	Refined    int
}

// Sweeper relates the nodes of term DAGs to each other and to constants ("SAT sweeping"): candidate
// equalities are proposed by random simulation (refined by the counterexamples of refuted candidates),
// visited in topological order and each one is PROVED by the solver -- with no assumption at all, so a
// proved equality is a validity and is remembered -- on the DAG in which all previously proved
// equalities have been merged; only proved equalities are merged.  Simulation never decides anything; a
// refuted or undecided candidate is simply not merged.
type Sweeper struct {
	C        *Ctx
	S        *Solver
	MinWidth int
	Memo     map[int]*Term // original node ID -> merged node
	Stats    SweepStats
	QueryMs  int  // per-candidate solver budget
	HintOnly bool // only hint roots (and constants) are class representatives
	hint     map[int]bool
	evs      []*Evaluator
	classes  map[string][]*Term
	reps     []*Term
	vars     map[int]*Term
	bconst   map[int]*Term
}

func NewSweeper(c *Ctx, s *Solver, minWidth int) *Sweeper {
	w := &Sweeper{C: c, S: s, MinWidth: minWidth, Memo: map[int]*Term{}, classes: map[string][]*Term{}, vars: map[int]*Term{}, bconst: map[int]*Term{}, QueryMs: 20000}
	if v := os.Getenv("VERIF_SWEEP_MS"); v != "" {
		fmt.Sscanf(v, "%d", &w.QueryMs)
	}
	for k := 0; k < 96; k++ {
		w.evs = append(w.evs, NewEvaluator(nil, uint64(k+1)*0x9e3779b97f4a7c15))
	}
	// structured vectors: all-zero, all-one, sparse and dense assignments make "is zero" / "carries out"
	// style flags vary, which uniform vectors never do
	for k, mode := range []int{3, 4, 1, 1, 1, 1, 1, 1, 2, 2, 2, 2, 2, 2} {
		ev := NewEvaluator(nil, uint64(k+101)*0x9e3779b97f4a7c15)
		ev.Mode = mode
		w.evs = append(w.evs, ev)
	}
	return w
}

func (w *Sweeper) sig(t *Term) (string, bool, *big.Int) {
	key := fmt.Sprintf("%d:", t.W)
	var first *big.Int
	constant := true
	for _, ev := range w.evs {
		v := ev.Eval(t)
		if first == nil {
			first = v
		} else if v.Cmp(first) != 0 {
			constant = false
		}
		key += v.Text(16) + ","
	}
	return key, constant, first
}

func (w *Sweeper) refine(m Model) {
	if len(w.evs) >= 200 || m == nil {
		return
	}
	vars := map[string]*big.Int{}
	for k, v := range m {
		vars[k] = v
	}
	w.evs = append(w.evs, NewEvaluator(vars, uint64(len(w.evs)+1)*0x9e3779b97f4a7c15))
	w.Stats.Refined++
	w.classes = map[string][]*Term{}
	for _, r := range w.reps {
		k, _, _ := w.sig(r)
		w.classes[k] = append(w.classes[k], r)
	}
}

func (w *Sweeper) varList() []*Term {
	out := make([]*Term, 0, len(w.vars))
	for _, v := range w.vars {
		out = append(out, v)
	}
	sort.Slice(out, func(i, j int) bool { return out[i].ID < out[j].ID })
	return out
}

// prove: a == b is valid.  Local lemmas first (everything below a small distance replaced by free
// variables: a generalisation, hence sound), the full cones last.
func (w *Sweeper) prove(a, b *Term, ladder []int) Result {
	c, s := w.C, w.S
	for _, depth := range ladder {
		dist := minDist(a, b, depth)
		memo := map[int]*Term{}
		an, ar := c.abstractCut(a, dist, depth, memo), c.abstractCut(b, dist, depth, memo)
		if an == ar {
			return Unsat
		}
		r1, _, e1 := s.Check(c, []*Term{c.Ne(an, ar)}, nil)
		if e1 == nil && r1 == Unsat {
			return Unsat
		}
	}
	res, m, err := s.Check(c, []*Term{c.Ne(a, b)}, w.varList())
	if err != nil {
		return Unknown
	}
	if res == Sat {
		w.refine(m)
	}
	return res
}

// AddHints sweeps the hint terms and makes them class representatives.
func (w *Sweeper) AddHints(hints []*Term) {
	if w.hint == nil {
		w.hint = map[int]bool{}
	}
	var fresh []*Term
	for _, h := range hints {
		if !w.hint[h.ID] {
			w.hint[h.ID] = true
			fresh = append(fresh, h)
		}
	}
	if len(fresh) > 0 {
		w.HintOnly = true
		w.Run(fresh)
	}
}

// Run sweeps the DAGs below roots and returns the rebuilt roots.
func (w *Sweeper) Run(roots []*Term) []*Term {
	c := w.C
	seen := map[int]*Term{}
	var nodes []*Term
	var walk func(t *Term)
	walk = func(t *Term) {
		if _, ok := seen[t.ID]; ok {
			return
		}
		seen[t.ID] = t
		if _, done := w.Memo[t.ID]; done {
			return
		}
		for _, a := range t.Args {
			walk(a)
		}
		nodes = append(nodes, t)
	}
	for _, r := range roots {
		walk(r)
	}
	sort.Slice(nodes, func(i, j int) bool { return nodes[i].ID < nodes[j].ID })
	w.Stats.Nodes += len(nodes)
	if sweepLog {
		fmt.Fprintf(os.Stderr, "SWEEP start new nodes=%d\n", len(nodes))
	}
	for _, n := range nodes {
		if n.Op == OpVar {
			w.vars[n.ID] = n
		}
	}
	old := w.S.TimeoutMs
	w.S.SetTimeout(w.QueryMs)
	defer w.S.SetTimeout(old)
	for _, n := range nodes {
		var n2 *Term
		if len(n.Args) == 0 {
			n2 = n
		} else {
			args := make([]*Term, len(n.Args))
			for i, a := range n.Args {
				args[i] = w.Memo[a.ID]
			}
			if n.Op == OpIte {
				// a Boolean is tested for constancy where it is used as a selector (the maximal
				// Boolean expression, not each of its sub-terms)
				args[0] = w.boolConst(args[0])
			}
			n2 = c.Make(n, args)
		}
		leaf := n2.Op == OpConst || n2.Op == OpVar
		if !leaf && (n.W >= w.MinWidth || (n.W == 0 && w.HintOnly)) {
			k, constant, val := w.sig(n2)
			merged := false
			if constant && n.W != 0 {
				// candidate: the node is a constant
				w.Stats.Candidates++
				t0 := time.Now()
				var k0 *Term
				if n2.W == 0 {
					k0 = c.Bool(val.Sign() != 0)
				} else {
					k0 = c.BigConst(n2.W, val)
				}
				res := w.prove(n2, k0, nil)
				if sweepLog {
					extra := ""
					if n.Op == OpExtract {
						extra = fmt.Sprintf(" of op=%d w=%d [%d:%d] val=%s", n.Args[0].Op, n.Args[0].W, n.Hi, n.Lo, val.Text(16))
					}
					fmt.Fprintf(os.Stderr, "SWEEP const%s cand=%d node=%d w=%d op=%d res=%v %.2fs\n", extra, w.Stats.Candidates, n.ID, n.W, n.Op, res, time.Since(t0).Seconds())
				}
				switch res {
				case Unsat:
					w.Stats.Proved++
					n2, merged = k0, true
				case Sat:
					w.Stats.Refuted++
					k, _, _ = w.sig(n2)
				default:
					w.Stats.Unknown++
				}
			}
			isHint := w.HintOnly && w.hint[n.ID]
			if !merged && !isHint {
				tried := 0
				for _, r := range w.classes[k] {
					if tried >= 4 {
						break
					}
					if r == n2 {
						merged = true
						break
					}
					tried++
					w.Stats.Candidates++
					t0 := time.Now()
					ladder := []int{1, 2, 3, 5, 8, 12}
					if w.HintOnly {
						ladder = nil // a hint is a different formula of the inputs: only the full cones can agree
					}
					res := w.prove(n2, r, ladder)
					if sweepLog {
						fmt.Fprintf(os.Stderr, "SWEEP cand=%d node=%d w=%d op=%d res=%v %.2fs\n", w.Stats.Candidates, n.ID, n.W, n.Op, res, time.Since(t0).Seconds())
					}
					if res == Unsat {
						w.Stats.Proved++
						n2, merged = r, true
						break
					}
					if res == Sat {
						w.Stats.Refuted++
						// the class map was rebuilt with the counterexample: look n2 up again
						k2, _, _ := w.sig(n2)
						if k2 != k {
							k = k2
							break
						}
					} else {
						w.Stats.Unknown++
					}
				}
			}
			if !merged && n2.Op != OpConst && n2.Op != OpVar && (!w.HintOnly || isHint) {
				k, _, _ = w.sig(n2)
				dup := false
				for _, r := range w.classes[k] {
					if r == n2 {
						dup = true
					}
				}
				if !dup {
					w.classes[k] = append(w.classes[k], n2)
					w.reps = append(w.reps, n2)
				}
			}
		}
		w.Memo[n.ID] = n2
	}
	if sweepLog {
		fmt.Fprintf(os.Stderr, "SWEEP done %+v\n", w.Stats)
	}
	out := make([]*Term, len(roots))
	for i, r := range roots {
		out[i] = w.Memo[r.ID]
		if out[i].W == 0 {
			out[i] = w.boolConst(out[i])
		}
	}
	return out
}

// boolConst: b rebuilt as a constant if simulation suggests it and the solver proves it.
func (w *Sweeper) boolConst(b *Term) *Term {
	if b.W != 0 || b.Op == OpConst || b.Op == OpVar {
		return b
	}
	if r, ok := w.bconst[b.ID]; ok {
		return r
	}
	out := b
	_, constant, val := w.sig(b)
	if constant {
		w.Stats.Candidates++
		t0 := time.Now()
		k0 := w.C.Bool(val.Sign() != 0)
		res := w.prove(b, k0, nil)
		if sweepLog {
			fmt.Fprintf(os.Stderr, "SWEEP bool cand=%d node=%d op=%d res=%v %.2fs\n", w.Stats.Candidates, b.ID, b.Op, res, time.Since(t0).Seconds())
		}
		switch res {
		case Unsat:
			w.Stats.Proved++
			out = k0
		case Sat:
			w.Stats.Refuted++
		default:
			w.Stats.Unknown++
		}
	}
	w.bconst[b.ID] = out
	return out
}

// abstractAt rebuilds t with every non-leaf sub-term at distance depth replaced by a free variable
// named after the sub-term (the same sub-term gets the same variable on both sides).
func (c *Ctx) abstractAt(t *Term, depth int, memo map[[2]int]*Term) *Term {
	if len(t.Args) == 0 {
		return t
	}
	if depth == 0 {
		return c.Var(fmt.Sprintf("cut!%d", t.ID), t.W)
	}
	k := [2]int{t.ID, depth}
	if v, ok := memo[k]; ok {
		return v
	}
	args := make([]*Term, len(t.Args))
	for i, a := range t.Args {
		args[i] = c.abstractAt(a, depth-1, memo)
	}
	v := c.Make(t, args)
	memo[k] = v
	return v
}

// minDist: minimal distance of every node from either root, explored down to limit.
func minDist(a, b *Term, limit int) map[int]int {
	dist := map[int]int{}
	type item struct {
		t *Term
		d int
	}
	queue := []item{{a, 0}, {b, 0}}
	for len(queue) > 0 {
		it := queue[0]
		queue = queue[1:]
		if d, ok := dist[it.t.ID]; ok && d <= it.d {
			continue
		}
		dist[it.t.ID] = it.d
		if it.d >= limit {
			continue
		}
		for _, x := range it.t.Args {
			queue = append(queue, item{x, it.d + 1})
		}
	}
	return dist
}

// abstractCut replaces every non-leaf node whose minimal distance from the roots is >= depth by a free
// variable (consistently for all its occurrences).
func (c *Ctx) abstractCut(t *Term, dist map[int]int, depth int, memo map[int]*Term) *Term {
	if len(t.Args) == 0 {
		return t
	}
	if d, ok := dist[t.ID]; !ok || d >= depth {
		return c.Var(fmt.Sprintf("cut!%d", t.ID), t.W)
	}
	if v, ok := memo[t.ID]; ok {
		return v
	}
	args := make([]*Term, len(t.Args))
	for i, a := range t.Args {
		args[i] = c.abstractCut(a, dist, depth, memo)
	}
	v := c.Make(t, args)
	memo[t.ID] = v
	return v
}
