package main

import (
	"encoding/json"
	"flag"
	"fmt"
	"os"
	"path/filepath"
	"sort"
	"strconv"

	"gosym/checks"
	"gosym/driver"
)

func usage() {
	fmt.Println("usage: gmsmverif check <id> [--tier quick|thorough] [--filter s] [-v] | replay <file> | list")
	os.Exit(2)
}

func main() {
	if len(os.Args) < 2 {
		usage()
	}
	switch os.Args[1] {
	case "list":
		var ids []string
		for id := range checks.All {
			ids = append(ids, id)
		}
		sort.Strings(ids)
		for _, id := range ids {
			for _, t := range []string{"quick", "thorough"} {
				fmt.Printf("%s %s: %d cases\n", id, t, len(checks.All[id].Cases(t)))
			}
		}
	case "check":
		if len(os.Args) < 3 {
			usage()
		}
		id := os.Args[2]
		fs := flag.NewFlagSet("check", flag.ExitOnError)
		tier := fs.String("tier", envOr("VERIF_TIER", "quick"), "quick|thorough")
		filter := fs.String("filter", "", "only cases whose key contains this string")
		verbose := fs.Bool("v", false, "verbose")
		solver := fs.String("solver", envOr("VERIF_SOLVER", "z3-new"), "z3|z3-new|cvc5")
		cross := fs.String("cross", envOr("VERIF_CROSS", "cvc5"), "cross-check solver or empty")
		timeout := fs.Int("qtimeout", 120000, "per-query timeout ms")
		fs.Parse(os.Args[3:])
		ck := checks.All[id]
		if ck == nil {
			fmt.Println("unknown check", id)
			os.Exit(2)
		}
		seed, _ := strconv.Atoi(os.Getenv("VERIF_SEED"))
		r := &driver.Runner{WorkDir: filepath.Join(driver.VerifRoot, ".work"), Solver: *solver, Cross: *cross, Verbose: *verbose, TimeoutMs: *timeout}
		os.Exit(r.RunCheck(ck, *tier, seed, *filter))
	case "replay":
		if len(os.Args) < 3 {
			usage()
		}
		b, err := os.ReadFile(os.Args[2])
		if err != nil {
			fmt.Println(err)
			os.Exit(2)
		}
		var rf driver.ReplayFile
		if err := json.Unmarshal(b, &rf); err != nil {
			fmt.Println(err)
			os.Exit(2)
		}
		wd := filepath.Join(driver.VerifRoot, ".work", "replay-"+strconv.Itoa(os.Getpid()))
		defer os.RemoveAll(wd)
		outcome, out, err := driver.Replay(&rf, os.Args[2], 40, wd)
		if err != nil {
			fmt.Println(out)
			fmt.Println("replay error:", err)
			os.RemoveAll(wd)
			os.Exit(2)
		}
		fmt.Printf("replay of %s (%s %v): %s\n", rf.Harness, rf.Pkg, rf.Params, outcome)
		os.RemoveAll(wd)
		if len(outcome) > 0 && (contains(outcome, "FAILED") || contains(outcome, "PANIC")) {
			fmt.Printf("VIOLATION property=%s replay=%s\n", rf.Property, os.Args[2])
			os.Exit(1)
		}
		os.Exit(0)
	default:
		usage()
	}
}

func contains(s, sub string) bool {
	for i := 0; i+len(sub) <= len(s); i++ {
		if s[i:i+len(sub)] == sub {
			return true
		}
	}
	return false
}

func envOr(k, d string) string {
	if v := os.Getenv(k); v != "" {
		return v
	}
	return d
}
